"""Determinism self-test: the same run index must give the same event digest
  * twice in the same process order, * in a fresh interpreter, * at another worker count (different run-to-process
  assignment and order), * under another PYTHONHASHSEED.
`./check selftest --setup` is the short form run by MANIFEST.setup_cmd; `./check selftest --full [--n N]` the long form.
Any mismatch exits 2 (harness error): nothing a non-deterministic simulator reports is believed.
"""
from __future__ import annotations

import json
import os
import subprocess
import sys
import time

from sim import kernel

PROPS = ["C05", "C06", "C07", "C18"]


def _digests(prop, seed, idxs, hashseed="0", chunk=None):
    """Runs the given run indices in one fresh interpreter (in the given order) and returns {idx: digest}."""
    code = (
        "import sys, json, warnings; sys.path.insert(0, %r); from sim import kernel; kernel.use_repo(); warnings.filterwarnings('ignore');\n"
        "from sim import driver; mod = driver.load(%r)\n"
        "out = {}\n"
        "for i in %r:\n"
        "    out[i] = mod.run_one(%d, 'quick', i)['digest']\n"
        "print('DIGESTS=' + json.dumps(out))\n"
    ) % (kernel.VERIF_DIR, prop, list(idxs), seed)
    env = dict(os.environ)
    env["PYTHONHASHSEED"] = hashseed
    r = subprocess.run([kernel.PY, "-c", code], env=env, capture_output=True, text=True, timeout=3600, cwd=kernel.VERIF_DIR)
    if r.returncode != 0:
        raise kernel.HarnessError(f"selftest worker failed for {prop}: {r.stderr[-3000:]}")
    line = [ln for ln in r.stdout.splitlines() if ln.startswith("DIGESTS=")][-1]
    return {int(k): v for k, v in json.loads(line[len("DIGESTS="):]).items()}


def _parallel(jobs):
    from concurrent.futures import ThreadPoolExecutor
    with ThreadPoolExecutor(max_workers=16) as ex:
        return list(ex.map(lambda j: _digests(*j), jobs))


def main(seed, argv):
    t0 = time.time()
    full = "--full" in argv
    n = 12
    if "--n" in argv:
        n = int(argv[argv.index("--n") + 1])
    elif full:
        n = 200
    elif "--setup" in argv:
        n = 8
    props = PROPS
    if "--props" in argv:
        props = argv[argv.index("--props") + 1].split(",")
    bad = 0
    report = {}
    for prop in props:
        start = 16 if prop == "C18" else 0     # C18 runs < 16 are the (deterministic by construction, slower) exhaustive slices
        idxs = list(range(start, start + n))
        if prop == "C18":
            idxs = [0, 5] + idxs[: max(2, n - 2)]
        # A: ascending order, split over 4 processes; B: descending order, split differently (3 processes), other hash seed
        a_chunks = [idxs[i::4] for i in range(4)]
        b_chunks = [list(reversed(idxs))[i::3] for i in range(3)]
        c_chunks = [idxs[i::5] for i in range(5)]
        jobs = [(prop, seed, ch, "0") for ch in a_chunks if ch] + [(prop, seed, ch, "0") for ch in b_chunks if ch] + \
               [(prop, seed, ch, "1") for ch in c_chunks if ch]
        res = _parallel(jobs)
        na, nb = len([c for c in a_chunks if c]), len([c for c in b_chunks if c])
        A, B, C = {}, {}, {}
        for d in res[:na]:
            A.update(d)
        for d in res[na:na + nb]:
            B.update(d)
        for d in res[na + nb:]:
            C.update(d)
        mism = [i for i in idxs if not (A[i] == B[i] == C[i])]
        report[prop] = {"runs": len(idxs), "mismatches": mism}
        print(f"[selftest] {prop}: {len(idxs)} run indices x 3 executions (fresh interpreters, 4/3/5-way splits, reversed order, "
              f"PYTHONHASHSEED 0/0/1): {'OK' if not mism else 'MISMATCH ' + str(mism[:10])}", flush=True)
        bad += len(mism)
    os.makedirs(kernel.WORK, exist_ok=True)
    with open(os.path.join(kernel.WORK, "selftest.json"), "w") as f:
        json.dump({"report": report, "wall_s": round(time.time() - t0, 1)}, f)
    if bad:
        print("HARNESS-ERROR: determinism self-test failed", file=sys.stderr)
        return kernel.EXIT_HARNESS
    return kernel.EXIT_OK
