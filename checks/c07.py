"""C07 - validation outcomes do not depend on thread interleaving (deterministic thread scheduler, sim/sched.py).

One run = one seeded workload of 2-3 validate calls + one seeded schedule.  Reference model: the sequential
executions (each call alone on freshly built objects; if hidden per-object state makes sequential outcomes
order-dependent - C05's subject - any sequential order of the same calls on the shared objects is accepted).
"""
from __future__ import annotations

import copy
import itertools
import os

from sim import faults, kernel, sched, world
from sim.fingerprint import classify, config_fp, diff_paths, fp, generalise
from sim.kernel import Violation
from sim.outcome import canon_obj, run_call

PROP = "C07"
LEVEL = "exploration"

TRUE_COLD_EVERY = 10
CONFIGS = ["shared-pandas", "separate-pandas", "polars-mixed", "polars-eager-only", "shared-polars", "mixed", "models-cold",
           "shared-components", "shared-checks-cross-backend"]


def plan(tier):
    return {"runs": 3200 if tier == "quick" else 60000, "timeout_s": 1500 if tier == "quick" else 6 * 3600}


def describe():
    return {
        "rule": ("one run = a seeded workload (2-3 concurrent validate calls over pandas/polars schemas, shared or separate schema objects, "
                 "eager/lazy, passing/failing data, optional callback faults, optionally inside a caller's config_context; every 10th run in a fresh, genuinely cold interpreter) executed under one seeded schedule "
                 "(uniform / PCT / window-targeted policy) by the baton-passing settrace scheduler; outcomes, schema fingerprints, process "
                 "configuration and caller frames are compared with the sequential reference. evaluations = concurrent executions. "
                 "Non-trivial = at least one context switch happened while another thread was inside its validate call; distinct = digest "
                 "of (workload, sequence of switch sites)."),
        "components": {"real": ["all of pandera", "pandas", "numpy", "polars (pool pinned to one thread; treated as a deterministic function)",
                                "real OS threads (threading.Thread), one per simulated caller"],
                       "simulator_owned": ["which thread runs next at every traced line inside pandera/ (sys.settrace baton passing)",
                                           "user callbacks and their fault plans (thread-local)", "process temperature: every 10th run is the first pandera activity of a fresh interpreter"],
                       "stubbed": []},
        "assumptions": ["pre-emption granularity is a source line inside pandera/ (and the callback library); races wholly inside one line "
                        "or inside pandas/polars are not explored",
                        "row-order-nondeterministic polars operators (unique() without maintain_order, unseeded sample) are kept out of workloads"],
    }


# ---------------------------------------------------------------------------------------------
# workload generation
# ---------------------------------------------------------------------------------------------
DENY = ("drop_invalid_rows", "name_collision", "subsample")
DENY_SHARED = ("name_collision", "subsample")     # shared pandas workloads may drop invalid rows (solo and scheduled runs leak alike)


SHARED_FORCE = ("coerce", "multiindex", "index", "regex", "schema_dtype")   # everything validated through a temporary override


def _spec(rng, backend, kind=None, want_cb=0.5, deny=DENY, force=()):
    for _ in range(10):
        g = world.SpecGen(rng, want_callbacks=want_cb, backend=backend, deny=deny, force=force)
        spec = g.schema(kind=kind)
        try:
            world.build_schema(spec)
            return g, spec
        except Exception:  # noqa: BLE001
            continue
    raise kernel.HarnessError("could not generate a constructible schema")


def gen_workload(rng, idx):
    cfg = CONFIGS[idx % len(CONFIGS)]
    n = rng.choice([2, 2, 3])
    subjects, calls = [], []

    def add_call(g, si, backend, pl_lazy=None):
        spec = subjects[si]
        fr = g.frame_for(spec, conform=0.6)
        mode = {"lazy": rng.random() < 0.5, "inplace": False}
        if "drop_invalid_rows" in world.spec_features(spec):
            mode["lazy"] = mode["lazy"] or rng.random() < 0.8     # drop_invalid_rows is only defined for lazy validation
        if backend == "polars":
            mode["pl_lazy"] = (rng.random() < 0.5) if pl_lazy is None else pl_lazy
        calls.append({"subject": si, "frame": fr, "mode": mode, "plan": {}})

    if cfg in ("shared-pandas", "shared-polars"):
        backend = "pandas" if cfg == "shared-pandas" else "polars"
        g, spec = _spec(rng, backend, kind=rng.choice(["dfs", "dfs", "dfs", "series", "column", "index"] if backend == "pandas" else ["dfs", "dfs", "column"]),
                        force=SHARED_FORCE + (("drop_invalid_rows",) if backend == "pandas" else ()),
                        deny=DENY_SHARED if backend == "pandas" else DENY)
        subjects.append(spec)
        for _ in range(n):
            add_call(g, 0, backend, pl_lazy=(False if backend == "polars" else None))
    elif cfg == "separate-pandas":
        for i in range(n):
            g, spec = _spec(rng, "pandas")
            subjects.append(spec)
            add_call(g, i, "pandas")
    elif cfg == "polars-eager-only":
        for i in range(n):
            g, spec = _spec(rng, "polars")
            subjects.append(spec)
            add_call(g, i, "polars", pl_lazy=False)
    elif cfg == "polars-mixed":
        for i in range(n):
            g, spec = _spec(rng, "polars")
            subjects.append(spec)
            add_call(g, i, "polars", pl_lazy=(i % 2 == 0))
    elif cfg == "shared-components":
        # two *different* schema objects that reuse the same Column objects (and so the same Check and dtype instances), the
        # way users define a column once and put it into several schemas; container-level options differ
        backend = rng.choice(["pandas", "pandas", "polars"])
        g, spec = _spec(rng, backend, kind="dfs", force=SHARED_FORCE)
        subjects.append(spec)
        subjects.append({"backend": backend, "kind": "dfs", "share_columns_of": 0,
                         "strict": rng.choice([False, False, True]), "coerce": rng.random() < 0.5, "ordered": False,
                         "name": "S2", "columns": spec["columns"], "index": None, "checks": [], "parsers": [], "dtype": None,
                         "unique": None, "add_missing_columns": False, "drop_invalid_rows": False})
        for i in range(n):
            add_call(g, i % 2, backend, pl_lazy=(False if backend == "polars" else None))
    elif cfg == "shared-checks-cross-backend":
        # a pandas schema and a polars schema holding the very same built-in Check objects (a user who keeps
        # `positive = pa.Check.ge(0)` in one place and uses it for both libraries)
        g, spec = _spec(rng, "pandas", kind="dfs", want_cb=0.0, deny=DENY + ("regex", "custom_dtype", "parsers", "groupby"))
        subjects.append(spec)
        cols = [dict(c, parsers=[], checks=[ch for ch in c["checks"] if ch["t"] == "builtin"], default=None)
                for c in spec["columns"] if c["dtype"] in world.PL_DTYPES]
        if not cols:
            cols = [{"name": "c0", "dtype": "int64", "nullable": False, "unique": False, "coerce": False, "required": True, "regex": False,
                     "default": None, "checks": [], "parsers": []}]
        subjects.append({"backend": "polars", "kind": "dfs", "share_checks_of": 0, "columns": cols, "index": None, "checks": [], "parsers": [],
                         "dtype": None, "coerce": False, "strict": False, "ordered": False, "unique": None, "add_missing_columns": False,
                         "drop_invalid_rows": False, "name": "S2"})
        for i in range(n):
            add_call(g, i % 2, subjects[i % 2]["backend"], pl_lazy=(False if i % 2 else None))
    elif cfg == "models-cold":
        backend = rng.choice(["pandas", "polars"])
        g, spec = _spec(rng, backend, kind="model", force=("coerce",))
        subjects.append(spec)
        for _ in range(n):
            add_call(g, 0, backend, pl_lazy=(False if backend == "polars" else None))
    else:  # mixed
        for i in range(n):
            backend = rng.choice(["pandas", "polars"])
            share = i > 0 and subjects[-1]["backend"] == backend and rng.random() < 0.4
            if share:
                g = world.SpecGen(rng, backend=backend, deny=DENY)
                add_call(g, len(subjects) - 1, backend)
            else:
                g, spec = _spec(rng, backend)
                subjects.append(spec)
                add_call(g, len(subjects) - 1, backend)
    # optional callback faults (thread-local plans)
    if rng.random() < 0.3:
        c = rng.choice(calls)
        # polars may run an element-wise UDF on one of its own pool threads, where the simulated caller's thread-local
        # fault plan is not visible: such a plan would fire alone but not under the scheduler - a harness artefact
        if '"pl_elem_true"' not in kernel.jdump(subjects[c["subject"]]):
            c["plan"] = {str(rng.choice([1, 1, 2, 3])): rng.choice(["exc_msg", "KeyError", "exc_noargs", "SchemaError"])}
    rng.random()        # (stream position kept: this draw used to decide the in-process "cold registries" knob, see DESIGN.md)
    wl = {"config": cfg, "subjects": subjects, "calls": calls, "cold": False}
    if kernel.derive_int("true-cold", idx) % TRUE_COLD_EVERY == 0:       # spread over run indices (hence over workers)
        # a genuinely cold process: the workload runs as the very first pandera activity of a fresh interpreter, so every
        # lazily filled registry, cache and lazily imported module - including ones a change to pandera might add - is cold
        wl["true_cold"] = True
        wl["cold"] = False
    # ambient configuration (own stream): the threads may be started from inside a config_context of the caller
    r2 = kernel.derive(rng.getrandbits(32), "ambient")
    if r2.random() < 0.25:
        from checks import c06
        wl["ambient"] = r2.choice(c06.AMBIENT)
    return wl


# ---------------------------------------------------------------------------------------------
# attribution: what each call *observed* of the process-wide context configuration
# ---------------------------------------------------------------------------------------------
_MON = {"installed": False, "logs": {}, "solo": None}


def install_config_monitor():
    """Wraps pandera.config.get_config_context (in every module that imported it by name) with a recorder of
    (calling function, returned configuration) per simulated call.  The wrapper lives outside pandera/, so it adds no
    pre-emption point and the step count of a run is the same with and without it.  Used only to *attribute* a divergence:
    if a call observed a configuration value it does not observe when run alone, before its control flow diverged in any
    other way, the divergence is the known process-global-configuration race (C07-K01/K02); otherwise it is something else."""
    if _MON["installed"]:
        return
    import sys
    import threading
    from pandera import config as pconfig
    orig = pconfig.get_config_context

    def get_config_context(*a, **kw):
        r = orig(*a, **kw)
        st = getattr(threading.current_thread(), "_sim", None)
        key = st.tid if st is not None else _MON["solo"]
        if key is not None:
            _MON["logs"].setdefault(key, []).append(
                (sys._getframe(1).f_code.co_name, r.validation_enabled, getattr(r.validation_depth, "name", None),
                 r.cache_dataframe, r.keep_cached_dataframe))
        return r

    get_config_context.__wrapped__ = orig
    for name, mod in list(sys.modules.items()):
        if name.startswith("pandera") and mod is not None:
            for attr, val in list(vars(mod).items()):
                if val is orig:
                    setattr(mod, attr, get_config_context)
    _MON["installed"] = True


def config_interference(solo_log, conc_log):
    """True iff the first point at which the two observation sequences differ is a *value* difference at the same
    reading site (same calling function): the call saw another call's configuration."""
    for a, b in zip(solo_log, conc_log):
        if a == b:
            continue
        return a[0] == b[0]
    return False


# ---------------------------------------------------------------------------------------------
# execution
# ---------------------------------------------------------------------------------------------
def _validate(subject, data, mode):
    return subject.validate(data, lazy=mode["lazy"], inplace=mode.get("inplace", False))


def _subject_fp(s):
    return fp(s.to_schema()) if isinstance(s, type) else fp(s)


def _make_warm():
    import pandas as pd
    import polars as pl
    import pandera as pa
    import pandera.polars as pap
    pa.DataFrameSchema({"a": pa.Column(int)}).validate(pd.DataFrame({"a": [1]}))
    pa.SeriesSchema(int).validate(pd.Series([1]))
    pap.DataFrameSchema({"a": pap.Column(pl.Int64)}).validate(pl.DataFrame({"a": [1]}))


def build_objects(wl):
    subs = []
    for s in wl["subjects"]:
        if "share_checks_of" in s:
            base = subs[s["share_checks_of"]]
            import pandera.polars as pap
            cols = {}
            for c in s["columns"]:
                shared = [ch for ch in base.columns[c["name"]].checks if getattr(ch, "_verif_site", None) is None] if c["name"] in base.columns else []
                cols[c["name"]] = pap.Column(world.PL_DTYPES[c["dtype"]], checks=shared or None, nullable=c["nullable"], unique=c["unique"],
                                             coerce=c["coerce"], required=c["required"])
            subs.append(pap.DataFrameSchema(cols, name=s["name"]))
        elif "share_columns_of" in s:
            base = subs[s["share_columns_of"]]
            import pandera as pa
            import pandera.polars as pap
            mod = pap if s["backend"] == "polars" else pa
            subs.append(mod.DataFrameSchema(columns=dict(base.columns), strict=s["strict"], coerce=s["coerce"], name=s["name"]))
        else:
            subs.append(world.build_schema(s))
    frames = []
    for c in wl["calls"]:
        spec = wl["subjects"][c["subject"]]
        frames.append(world.build_frame(c["frame"], spec["backend"], spec["kind"], lazy=c["mode"].get("pl_lazy", False)))
    return subs, frames


def call_fn(subject, frame, call, thread_local):
    def fn():
        faults.install(faults.FaultState(call["plan"]), thread_local=thread_local)
        try:
            return run_call(lambda: _validate(subject, frame, call["mode"]))
        finally:
            if thread_local:
                faults.clear_thread_local()
            else:
                faults.install(faults.FaultState())
    return fn


def sequential_reference(wl):
    """Each call alone on freshly built objects: (outcome, state of the caller's frame after the call)."""
    ref, ref_frames = [], []
    for k in [k for k in _MON["logs"] if isinstance(k, tuple)]:
        del _MON["logs"][k]
    for i, c in enumerate(wl["calls"]):
        subs, frames = build_objects(wl)
        _MON["solo"] = ("solo", i)
        try:
            out = call_fn(subs[c["subject"]], frames[i], c, False)()
        finally:
            _MON["solo"] = None
        ref.append(out.canon)
        ref_frames.append(canon_obj(frames[i]))
    return ref, ref_frames


def sequential_order(wl, order):
    """The calls one after another, in `order`, on one set of shared objects: (outcomes, final fingerprints)."""
    subs, frames = build_objects(wl)
    outs = [None] * len(wl["calls"])
    for i in order:
        c = wl["calls"][i]
        outs[i] = call_fn(subs[c["subject"]], frames[i], c, False)().canon
    return outs, [_subject_fp(s) for s in subs]


class _ChildSched:
    """The scheduler-side results of a run executed in a child interpreter."""

    def __init__(self, d):
        self.switches = [tuple(x) for x in d["switches"]]
        self.stats = d["stats"]
        self.step = d["step"]
        self.policy = d["policy"]
        self._schedule = d["schedule"]

    def schedule(self):
        return self._schedule


def run_workload(wl, policy_or_rng, want_detail=False, schedule_seed=None):
    """Returns (violations [(class, detail)], scheduler, info)."""
    if wl.get("true_cold") and not os.environ.get("VERIF_C07_CHILD"):
        return _run_in_cold_child(wl, policy_or_rng, schedule_seed)
    from pandera import config
    config.reset_config_context()
    if wl.get("ambient"):
        from checks import c06
        with config.config_context(**c06.ambient_kwargs(wl["ambient"])):
            amb = config.get_config_context(validation_depth_default=None)
            res = _run_workload(wl, policy_or_rng, lambda: config.reset_config_context(amb))
        config.reset_config_context()
        return res
    return _run_workload(wl, policy_or_rng, config.reset_config_context)


def ambient_process_state():
    """Process-wide settings of the libraries pandera drives, which a validate call might override 'temporarily': after all
    calls have finished they must be what they were (a permanently changed option changes what every later call returns)."""
    import warnings as _w
    import numpy as np
    import pandas as pd
    # Not included on purpose: `mode.chained_assignment` and the warnings filters.  pandas itself wraps calls of user functions
    # (apply, groupby) in option_context / catch_warnings; a pre-emption inside a *user callback* can therefore leave those
    # changed through pandas' own thread-unsafety, with pandera doing nothing wrong (seen once: pd.mode.chained_assignment).
    out = {"np.errstate": dict(np.geterr())}
    for opt in ("future.no_silent_downcasting", "mode.copy_on_write", "future.infer_string"):
        try:
            out["pd." + opt] = pd.get_option(opt)
        except Exception:  # noqa: BLE001 option unknown to this pandas
            pass
    return out


_AMBIENT_FILTERS0 = []


def _restore_ambient(amb0):
    """After a reported leak: put the settings back so that later runs of this worker are not charged with it."""
    import warnings as _w
    import numpy as np
    import pandas as pd
    np.seterr(**amb0["np.errstate"])
    for k, v in amb0.items():
        if k.startswith("pd."):
            try:
                pd.set_option(k[3:], v)
            except Exception:  # noqa: BLE001
                pass
    if _AMBIENT_FILTERS0:
        _w.filters[:] = _AMBIENT_FILTERS0[0]


def _run_in_cold_child(wl, policy_or_rng, schedule_seed):
    """Fresh interpreter; the scheduled run is its first pandera activity, the solo reference runs come afterwards."""
    import json
    import subprocess
    if isinstance(policy_or_rng, dict):
        req = {"workload": wl, "policy": policy_or_rng}
    else:
        if schedule_seed is None:
            raise kernel.HarnessError("true-cold workload needs the schedule seed labels (the PRNG cannot cross the process boundary)")
        req = {"workload": wl, "schedule_seed": list(schedule_seed)}
    env = dict(os.environ, VERIF_C07_CHILD="1")
    r = subprocess.run([kernel.PY, os.path.join(kernel.VERIF_DIR, "sim", "cli.py"), "_c07child"], input=json.dumps(req),
                       capture_output=True, text=True, timeout=900, env=env, cwd=kernel.VERIF_DIR)
    lines = [ln for ln in r.stdout.splitlines() if ln.startswith("{")]
    if r.returncode != 0 or not lines:
        raise kernel.HarnessError(f"cold child failed rc={r.returncode}: {r.stderr[-1500:]}")
    d = json.loads(lines[-1])
    if d.get("harness_error"):
        raise kernel.HarnessError("cold child: " + d["harness_error"])
    return [tuple(v) for v in d["vio"]], _ChildSched(d), d["info"]


def child_main():
    """Entry point of the cold child (sim/cli.py _c07child): request on stdin, one JSON line on stdout."""
    import json
    import sys
    req = json.loads(sys.stdin.read())
    wl = req["workload"]
    try:
        if "policy" in req:
            pol = req["policy"]
        else:
            pol = kernel.derive(*req["schedule_seed"])
            kernel.reseed_ambient(kernel.derive(*req["schedule_seed"], "ambient-entropy"))
        vio, sc, info = run_workload(wl, pol)
        out = {"vio": [list(v) for v in vio], "switches": [list(x) for x in sc.switches], "stats": sc.stats, "step": sc.step,
               "policy": sc.policy, "schedule": sc.schedule(), "info": info}
    except kernel.HarnessError as e:
        out = {"harness_error": str(e)}
    print(kernel.jdump(out))
    return 0


def _run_workload(wl, policy_or_rng, reset_config):
    from pandera import config
    faults.install(faults.FaultState())
    install_config_monitor()
    true_cold = bool(wl.get("true_cold"))
    if not true_cold:
        _make_warm()
        ref, ref_frames = sequential_reference(wl)
    reset_config()
    cfg0 = config_fp()

    subs, frames = build_objects(wl)
    # "before" state.  A DataFrameModel compiles and caches its schema on first use: fingerprinting the subject itself would
    # do that first use here, sequentially, and the concurrent calls would never race on it.  Its "before" is therefore the
    # fingerprint of a twin class built from the same spec (equal by construction), and the subject stays uncompiled.
    fps0 = [_subject_fp(world.build_schema(wl["subjects"][i])) if isinstance(s, type) else _subject_fp(s) for i, s in enumerate(subs)]
    frames0 = [canon_obj(f) for f in frames]
    fns = [call_fn(subs[c["subject"]], frames[i], c, True) for i, c in enumerate(wl["calls"])]
    if isinstance(policy_or_rng, dict):
        policy = policy_or_rng
        rng = None
    else:
        rng = policy_or_rng
        est = 1500 * len(fns)
        policy = sched.make_policy(rng, est, len(fns))
    sc = sched.Scheduler(rng, policy)
    for k in [k for k in _MON["logs"] if not isinstance(k, tuple)]:      # observations of earlier scheduled runs in this process
        del _MON["logs"][k]
    amb0 = ambient_process_state()
    import warnings as _w
    _AMBIENT_FILTERS0[:] = [list(_w.filters)]
    outs = sc.run(fns)
    amb1 = ambient_process_state()
    got = [o.canon for o in outs]

    vio = []
    cfg1 = config_fp()
    if true_cold:
        fps1_cold = [_subject_fp(s) for s in subs]
        frames1_cold = [canon_obj(f) for f in frames]
        reset_config()
        ref, ref_frames = sequential_reference(wl)      # the reference comes after the cold scheduled run
        reset_config()
    fps1 = fps1_cold if true_cold else [_subject_fp(s) for s in subs]
    backends = "+".join(sorted({wl["subjects"][c["subject"]]["backend"] for c in wl["calls"]}))
    shared = len({c["subject"] for c in wl["calls"]}) < len(wl["calls"])
    containers = "+".join(sorted({_container(wl, c) for c in wl["calls"]}))
    tag = f"{backends}|{containers}|shared={int(shared)}"

    logs = _MON["logs"]
    interfered = [i for i in range(len(got)) if config_interference(logs.get(("solo", i), []), logs.get(i, []))]
    ctx = lambda i: "ctx=interfered" if i in interfered else "ctx=clean"  # noqa: E731

    mismatch = [i for i in range(len(got)) if got[i] != ref[i]]
    state_changed = [i for i in range(len(subs)) if fps1[i] != fps0[i]]
    if mismatch or state_changed:
        # accept any sequential order on shared objects (order-dependence of sequential runs is hidden state, C05)
        explained = False
        for order in itertools.permutations(range(len(wl["calls"]))):
            o2, f2 = sequential_order(wl, order)
            if o2 == got and f2 == fps1:
                explained = True
                break
        reset_config()
        if not explained:
            for i in mismatch:
                c = wl["calls"][i]
                vio.append((f"outcome|{tag}|{ctx(i)}",
                            f"call {i} ({_container(wl, c)}, lazy={c['mode']['lazy']}) under the schedule gives {_shape(got[i])}"
                            f"{' @' + str(got[i].get('where')) if 'where' in got[i] else ''}, alone it gives {_shape(ref[i])}"
                            f"{' @' + str(ref[i].get('where')) if 'where' in ref[i] else ''}; {ctx(i)}: the call "
                            f"{'observed' if i in interfered else 'did not observe'} a context configuration it does not observe alone"))
            for i in state_changed:
                for what in classify(diff_paths(fps0[i], fps1[i], limit=40)):
                    vio.append((f"schema-state|{tag}|{what}", f"schema {i} differs after the concurrent calls at {diff_paths(fps0[i], fps1[i])}"))
    if cfg1 != cfg0:
        vio.append((f"config-state|{tag}|{','.join(sorted(generalise(p) for p in diff_paths(cfg0, cfg1)))}",
                    f"process configuration after join {cfg1} != before {cfg0}"))
        reset_config()
    # the caller's frame must be in the state the solo run leaves it in (whether a solo validate may touch its argument at
    # all is C04's subject, not C07's: the statement here is "exactly what it would have when run alone")
    if amb1 != amb0 and not true_cold:      # (in a cold process imports run inside the calls and may legitimately install filters)
        keys = sorted(k for k in set(amb0) | set(amb1) if amb0.get(k) != amb1.get(k))
        vio.append((f"process-state|{tag}|{','.join(keys)}",
                    f"process-wide library settings after the concurrent calls differ from before: "
                    f"{ {k: (amb0.get(k), amb1.get(k)) for k in keys} }"))
        _restore_ambient(amb0)
    frames1 = frames1_cold if true_cold else [canon_obj(f) for f in frames]
    for i, f in enumerate(frames):
        if frames1[i] != ref_frames[i]:
            vio.append((f"caller-data|{tag}", f"frame of call {i} after the concurrent run differs from its state after the same call run alone"
                                              f" (unchanged from input: {frames1[i] == frames0[i]})"))
    return vio, sc, {"ref": ref, "got": got, "tag": tag, "interfered": interfered}


def _container(wl, c):
    spec = wl["subjects"][c["subject"]]
    if spec["backend"] == "polars":
        return "pl.LazyFrame" if c["mode"].get("pl_lazy") else "pl.DataFrame"
    return "pd"


def _shape(c):
    if "returned" in c:
        return "returned"
    if "errors" in c:
        return "SchemaErrors[" + ",".join(sorted({x["reason"] for x in c["errors"]})) + "]"
    if "error" in c:
        return "SchemaError[" + c["error"]["reason"] + "]"
    return c["raised"]


def workload_tags(wl):
    t = {wl["config"]}
    for c in wl["calls"]:
        t.add(_container(wl, c))
    if len({c["subject"] for c in wl["calls"]}) < len(wl["calls"]):
        t.add("shared-schema-object")
    if wl.get("cold"):
        t.add("cold-registries")
    if wl.get("ambient"):
        t.add("ambient-config-context")
    if wl.get("true_cold"):
        t.add("true-cold-process")
    if any("share_columns_of" in s for s in wl["subjects"]):
        t.add("shared-column-objects")
    if any("share_checks_of" in s for s in wl["subjects"]):
        t.add("shared-check-objects-across-backends")
    if any(s["kind"] == "model" for s in wl["subjects"]):
        t.add("model")
    return sorted(t)


def run_one(seed, tier, idx):
    rng = kernel.derive(seed, PROP, idx)
    kernel.reseed_ambient(rng)
    wl = gen_workload(rng, idx)
    srng = kernel.derive(seed, PROP, idx, "schedule")
    vio, sc, info = run_workload(wl, srng, schedule_seed=(seed, PROP, idx, "schedule"))
    log = kernel.EventLog()
    log.add("workload", kernel.digest_of(wl))
    for s in sc.switches:
        log.add("switch", s)
    log.add("outcomes", [_shape(c) for c in info["got"]], sorted(k for k, _ in vio))
    stats = dict(sc.stats)
    stats["evaluations"] = 1
    stats["policy." + sc.policy["kind"]] = 1
    stats["config." + wl["config"]] = 1
    for c in wl["calls"]:
        if c["plan"]:
            stats["fault.callback_exception_in_thread"] = stats.get("fault.callback_exception_in_thread", 0) + 1
    if wl.get("cold"):
        stats["fault.cold_registries(process restart)"] = 1
    if wl.get("ambient"):
        stats["probe.threads_started_inside_callers_config_context"] = 1
    if wl.get("true_cold"):
        stats["fault.true_cold_process(fresh interpreter)"] = 1
    nontrivial = sc.stats.get("probe.switch_while_other_inside.validate", 0) > 0 or any(
        k.startswith("probe.switch_while_other_inside.") for k in sc.stats)
    key = kernel.digest_of([kernel.digest_of(wl), [s[3] for s in sc.switches]]) if nontrivial else None
    out, seen = [], set()
    for klass, detail in vio:
        if klass in seen:
            continue
        seen.add(klass)
        payload = {"workload": wl, "schedule": sc.schedule()}
        out.append(Violation(PROP, klass, detail, payload, workload_tags(wl)).to_json())
    sample = None
    if idx % 211 == 0:
        sample = {"config": wl["config"], "calls": [{"subject": c["subject"], "container": _container(wl, c), "lazy": c["mode"]["lazy"],
                                                      "fault_plan": c["plan"]} for c in wl["calls"]],
                  "policy": sc.policy["kind"], "steps": sc.step, "switch_sites": [s[3] for s in sc.switches][:12],
                  "outcomes": [_shape(c) for c in info["got"]]}
    return {"run": idx, "digest": log.digest(), "key": key, "steps": sc.step, "stats": stats, "violations": out, "sample": sample}


def replay(payload):
    wl = copy.deepcopy(payload["workload"])
    vio, sc, info = run_workload(wl, copy.deepcopy(payload["schedule"]))
    return [Violation(PROP, k, d, payload, workload_tags(wl)) for k, d in vio]


def shrink_candidates(payload):
    """Drop context switches from the schedule first (the schedule is the interesting part), then calls, then shrink specs."""
    sch = payload["schedule"]["schedule"]
    n = len(sch)
    # halves, then single switches
    if n > 1:
        for lo, hi in ((0, n // 2), (n // 2, n)):
            p = copy.deepcopy(payload)
            p["schedule"]["schedule"] = sch[:lo] + sch[hi:]
            yield p
    for i in range(n):
        p = copy.deepcopy(payload)
        p["schedule"]["schedule"] = sch[:i] + sch[i + 1:]
        yield p
    wl = payload["workload"]
    if len(wl["calls"]) > 2:
        for i in range(len(wl["calls"])):
            p = copy.deepcopy(payload)
            p["workload"]["calls"].pop(i)
            p["schedule"] = _retarget(p["schedule"], i)
            yield p
    for ci, c in enumerate(wl["calls"]):
        if c["plan"]:
            p = copy.deepcopy(payload)
            p["workload"]["calls"][ci]["plan"] = {}
            yield p
    if wl.get("cold"):
        p = copy.deepcopy(payload)
        p["workload"]["cold"] = False
        yield p
    if wl.get("ambient"):
        p = copy.deepcopy(payload)
        del p["workload"]["ambient"]
        yield p
    if wl.get("true_cold"):
        p = copy.deepcopy(payload)
        del p["workload"]["true_cold"]
        yield p


def _retarget(schedule, removed):
    """After removing thread `removed`, thread ids above it shift down; switches to it are dropped."""
    def m(t):
        return t - 1 if t > removed else t
    s2 = [[s, m(t)] for s, t in schedule["schedule"] if t != removed]
    first = schedule["first"]
    first = 0 if first == removed else m(first)
    fin = {str(m(int(k))): m(v) for k, v in schedule["finish_order"].items() if int(k) != removed and v != removed}
    return {"kind": "replay", "first": first, "schedule": s2, "finish_order": fin}
