"""C18 - configuration is scoped, honoured, and validation depth only removes checks.

(a) config_context histories (real `with` statements / decorator use, exception exits at any level) against an
    explicit stack model; exhaustive for nesting depth <= 2, seeded for depth 3-4 with validate calls in the body.
(b) environment matrix: one fresh interpreter per PANDERA_* assignment (full product, 108 interpreters).
(c) depth semantics under the configuration in force: (i) finite labelled matrix (sim/depthcases.py) evaluated inside
    the histories of (a) and the interpreters of (b); (ii) accept_SAD <=> accept_SO and accept_DO on seeded (S, D).
"""
from __future__ import annotations

import copy
import itertools
import json
import os
import subprocess
from concurrent.futures import ThreadPoolExecutor

from sim import depthcases, faults, kernel, world
from sim.kernel import Violation

PROP = "C18"
LEVEL = "exploration"

BOOL3 = [None, True, False]
DEPTHS = [None, "SCHEMA_ONLY", "DATA_ONLY", "SCHEMA_AND_DATA"]
ALL_OPTS = [dict(validation_enabled=e, validation_depth=d, cache_dataframe=c, keep_cached_dataframe=k)
            for e in BOOL3 for d in DEPTHS for c in BOOL3 for k in BOOL3]          # 108
EXITS = ["normal", "ValueError", "SchemaError", "KeyboardInterrupt", "GeneratorExit"]
N_SLICES = 16
FIELDS = ["validation_enabled", "validation_depth", "cache_dataframe", "keep_cached_dataframe"]


def plan(tier):
    seeded = 240 if tier == "quick" else 6000
    return {"runs": N_SLICES + seeded, "timeout_s": 900 if tier == "quick" else 4 * 3600}


def describe():
    return {
        "rule": ("(a) config_context histories executed with real `with` statements / decorator use and checked after every step "
                 "against a stack model: ALL 108x108 option pairs x 5x5 exit modes at nesting depth 2 (exhaustive, 16 slices), plus seeded "
                 "trees of depth <= 4 with sibling contexts, multi-level exception propagation and validate calls (pandas, polars "
                 "DataFrame, polars LazyFrame) in the bodies; (b) every PANDERA_* environment assignment (3x3x3x4 = 108) in a fresh "
                 "interpreter; (c) the labelled depth matrix under every depth in-process, inside (a)'s histories and (b)'s interpreters, "
                 "and accept_SAD <=> accept_SO & accept_DO on seeded scenarios. evaluations = histories + interpreters + matrix cells + "
                 "depth-equivalence scenarios. Non-trivial = nesting depth >= 2 (histories), any assignment (interpreters), any cell; "
                 "distinct = by digest of the history tree / assignment / cell / scenario."),
        "components": {"real": ["pandera.config (config_context, get_config_context, get_config_global, env parsing at import)",
                                "pandera validation (pandas and polars backends) for the validate steps", "fresh CPython interpreters for (b)"],
                       "simulator_owned": ["exception exits (injected at every nesting level)", "process environment of each simulated interpreter"],
                       "stubbed": []},
        "assumptions": ["non-LIFO use of config_context (generators suspended inside a context) is outside the statement",
                        "environment values are the documented spellings True/False and the three depth names",
                        "nullability is left out of the depth oracle (the backends classify it differently, the docs do not classify it)"],
        "exhaustive": False,
        "extra_coverage": {"exhaustive_parts": ["(a) nesting depth <= 2: 108^2 option pairs x 25 exit-mode pairs", "(b) 108 environment assignments",
                                                "(c)(i) labelled matrix x 3 depths x eager/lazy"]},
    }


# ---------------------------------------------------------------------------------------------
# model
# ---------------------------------------------------------------------------------------------
def cfg_tuple(c):
    return (c.validation_enabled, getattr(c.validation_depth, "name", c.validation_depth), c.cache_dataframe, c.keep_cached_dataframe)


def merge(top, opts):
    return tuple(top[i] if opts[f] is None else opts[f] for i, f in enumerate(FIELDS))


def kwargs_of(opts):
    from pandera.config import ValidationDepth
    kw = dict(opts)
    if kw["validation_depth"] is not None:
        kw["validation_depth"] = ValidationDepth[kw["validation_depth"]]
    return kw


class _Planned(Exception):
    pass


def make_exit_exc(kind):
    if kind == "ValueError":
        return ValueError("planned exit")
    if kind == "SchemaError":
        from pandera import errors
        return errors.SchemaError(schema=None, data=None, message="planned exit", reason_code=errors.SchemaErrorReason.DATAFRAME_CHECK)
    if kind == "KeyboardInterrupt":
        return KeyboardInterrupt()
    if kind == "GeneratorExit":
        return GeneratorExit()
    raise ValueError(kind)


class HistoryRun:
    """Executes one history tree against pandera.config and the stack model."""

    def __init__(self, global0):
        from pandera import config
        self.config = config
        self.global_obj = config.get_config_global()
        self.global0 = global0
        self.stack = [global0]
        self.violations = []      # (class, detail)
        self.steps = 0
        self.max_depth = 0
        self.stats = {}
        self._cases = None
        self.decos = {}
        self.active_decos = []

    def bump(self, k, n=1):
        self.stats[k] = self.stats.get(k, 0) + n

    def check_ctx(self, where):
        self.steps += 1
        top = self.stack[-1]
        got = cfg_tuple(self.config.get_config_context(validation_depth_default=None))
        if got != top:
            fields = [f for i, f in enumerate(FIELDS) if got[i] != top[i]]
            self.violations.append((f"ctx|{where}|{','.join(fields)}|depth={len(self.stack) - 1}",
                                    f"context config {got} != model {top} {where}"))
        got_d = cfg_tuple(self.config.get_config_context())
        exp_d = (top[0], top[1] or "SCHEMA_AND_DATA", top[2], top[3])
        if got_d != exp_d:
            self.violations.append((f"ctxdefault|{where}", f"get_config_context() {got_d} != {exp_d}"))
        g = self.config.get_config_global()
        if g is not self.global_obj or cfg_tuple(g) != self.global0:
            self.violations.append((f"global|{where}", f"global configuration changed: {cfg_tuple(g)} != {self.global0}"))

    def restore_pristine(self):
        """The simulated process starts every history from the configuration it was started with: a leak left behind by an
        earlier history (reported there, at its `after-unwind` step) must not make a later history's first step fail."""
        restore_pristine()

    def run(self, node):
        self.restore_pristine()
        self.check_ctx("initial")
        try:
            self.exec_node(node)
        except BaseException as e:  # noqa: BLE001 planned top-level exception exit
            if not getattr(e, "_planned", False):
                raise
        self.check_ctx("after-unwind")
        if len(self.stack) != 1:
            raise kernel.HarnessError("model stack not unwound")
        self.restore_pristine()

    def exec_node(self, node):
        kw = kwargs_of(node["opts"])
        self.stack.append(merge(self.stack[-1], node["opts"]))
        self.max_depth = max(self.max_depth, len(self.stack) - 1)

        def body():
            self.check_ctx("after-enter")
            for item in node["body"]:
                if "opts" in item:
                    try:
                        self.exec_node(item)
                    except BaseException as e:  # noqa: BLE001
                        if not getattr(e, "_planned", False):
                            raise
                        self.bump("probe.exception_exit_at_depth_%d" % len(self.stack))
                        if not item.get("caught", True):
                            self.bump("probe.exception_propagated_through_two_levels")
                            raise
                    self.check_ctx("after-child-exit")
                elif "validate" in item:
                    self.do_validate(item)
                    self.check_ctx("after-validate")
            if node["exit"] != "normal":
                exc = make_exit_exc(node["exit"])
                try:
                    exc._planned = True
                except AttributeError:
                    pass
                self.bump("fault.exit_by_" + node["exit"])
                raise exc

        try:
            if node.get("via", "with") == "with":
                with self.config.config_context(**kw):
                    body()
            else:
                # decorator use.  One decorator *object* per distinct option set and history, the way a module defines
                # `quiet = config_context(validation_enabled=False)` once and decorates several functions with it: nested
                # nodes with the same options re-enter the same object (legal: the decorator form builds a fresh context
                # manager per call).
                key = kernel.jdump(node["opts"])
                deco = self.decos.get(key)
                if deco is None:
                    deco = self.decos[key] = self.config.config_context(**kw)
                elif key in self.active_decos:
                    self.bump("probe.decorator_object_reentered")
                self.active_decos.append(key)
                try:
                    deco(body)()
                finally:
                    self.active_decos.pop()
        finally:
            self.stack.pop()

    # ---- validate step (depth semantics under the configuration in force) -----------------------
    def cases(self):
        if self._cases is None:
            self._cases = depthcases.all_cases()
        return self._cases

    def do_validate(self, item):
        backend, container, name, level, kind, mk_s, mk_d = self.cases()[item["validate"] % len(self.cases())]
        top = self.stack[-1]
        res = eval_case(backend, container, name, level, kind, mk_s, mk_d, item.get("lazy", False),
                        enabled=top[0], ctx_depth=top[1], global_depth=self.global0[1])
        self.bump("validate_steps")
        if top[0] is False:
            self.bump("probe.validate_with_validation_disabled")
        if len(self.stack) > 2:
            self.bump("probe.validate_inside_nested_context")
        self.violations.extend(res)


def eval_case(backend, container, name, level, kind, mk_s, mk_d, lazy, enabled, ctx_depth, global_depth):
    """Runs one labelled case under the configuration currently in force and compares with the documented meaning."""
    out = []
    s, d = mk_s(), mk_d()
    try:
        r = s.validate(d, lazy=lazy)
        accepted, same = True, (r is d)
    except BaseException as e:  # noqa: BLE001 any raise is a rejection for the depth oracle
        if isinstance(e, (KeyboardInterrupt, SystemExit)):
            raise
        accepted, same = False, False
    if enabled is False:
        if not (accepted and same):
            out.append((f"disabled|{backend}|{container}|{kind}|{'rejected' if not accepted else 'not-identical'}",
                        f"validation disabled but {backend} {kind}.validate({container}) "
                        f"{'raised' if not accepted else 'returned a different object'} on case {name}"))
        out += disabled_other_entry_points(backend, container, name, kind, mk_s, mk_d, lazy)
        return out
    depth = depthcases.effective_depth(backend, container, ctx_depth, global_depth)
    exp = depthcases.expected_accept(level, depth)
    if accepted != exp:
        src = "ctx" if ctx_depth else ("global" if global_depth else "default")
        out.append((f"depth|{backend}|{container}|{kind}|{name}|{depth}|{src}|expected={'accept' if exp else 'reject'}",
                    f"{backend} {kind} case {name} ({level}-level violation) under effective depth {depth} ({src}), lazy={lazy}: "
                    f"expected {'accept' if exp else 'reject'}, got {'accept' if accepted else 'reject'}"))
    return out


def disabled_other_entry_points(backend, container, name, kind, mk_s, mk_d, lazy):
    """'With validation disabled validate returns its argument untouched' - through the other documented ways of reaching
    validate: the call syntax `schema(data)` and, for pandas containers, the function decorators."""
    out = []

    def probe(entry, fn, d):
        try:
            r = fn(d)
            ok, why = (r is d), "not-identical"
        except BaseException as e:  # noqa: BLE001
            if isinstance(e, (KeyboardInterrupt, SystemExit)):
                raise
            ok, why = False, "rejected"
        if not ok:
            out.append((f"disabled|{backend}|{container}|{kind}|{entry}|{why}",
                        f"validation disabled but {backend} {kind} reached through {entry} on a {container} "
                        f"{'raised' if why == 'rejected' else 'returned a different object'} (case {name})"))

    s = mk_s()
    if not isinstance(s, type):
        probe("call-syntax", lambda d: s(d, lazy=lazy), mk_d())
    if backend == "pandas" and kind in ("dfs", "series"):
        import pandera as pa

        @pa.check_input(s, lazy=lazy)
        def consumer(obj):
            return obj

        @pa.check_output(s, lazy=lazy)
        def producer(obj):
            return obj
        @pa.check_io(obj=s, out=s, lazy=lazy)
        def both(obj):
            return obj
        probe("check_input", consumer, mk_d())
        probe("check_output", producer, mk_d())
        probe("check_io", both, mk_d())
    return out


# ---------------------------------------------------------------------------------------------
# generators
# ---------------------------------------------------------------------------------------------
def gen_tree(rng, depth_left, allow_validate=True):
    node = {"opts": rng.choice(ALL_OPTS), "via": "with" if rng.random() < 0.8 else "decorator", "body": [],
            "exit": "normal" if rng.random() < 0.55 else rng.choice(EXITS[1:])}
    for _ in range(rng.choice([0, 1, 1, 2, 3])):
        r = rng.random()
        if r < 0.55 and depth_left > 1:
            child = gen_tree(rng, depth_left - 1, allow_validate)
            child["caught"] = rng.random() < 0.7
            if rng.random() < 0.2:
                # the same decorator object as the enclosing node (recursion / one decorator on caller and callee)
                node["via"] = "decorator"
                child["via"] = "decorator"
                child["opts"] = node["opts"]
            node["body"].append(child)
        elif allow_validate:
            node["body"].append({"validate": rng.randrange(10 ** 6), "lazy": rng.random() < 0.5})
    return node


def tree_depth(node):
    return 1 + max([tree_depth(c) for c in node["body"] if "opts" in c] or [0])


_G0 = []


def global0_tuple():
    """The global configuration this process was started with (read once, before any history can have damaged it)."""
    from pandera import config
    if not _G0:
        _G0.append(cfg_tuple(config.get_config_global()))
    return _G0[0]


def restore_pristine():
    """Put pandera.config back into the state the process started with (a leak left by an earlier history or scenario was
    reported where it happened; it must not be charged to later ones, whose replay starts in a fresh process)."""
    from pandera import config
    g0 = global0_tuple()
    g = config.get_config_global()
    for i, f in enumerate(FIELDS):
        want = g0[i]
        if f == "validation_depth" and want is not None:
            want = config.ValidationDepth[want]
        if getattr(g, f) != want:
            setattr(g, f, want)
    config.reset_config_context()


# ---------------------------------------------------------------------------------------------
# runs
# ---------------------------------------------------------------------------------------------
def run_exhaustive_slice(slice_no, log, stats, vio):
    g0 = global0_tuple()
    n = 0
    distinct = set()
    for i, o1 in enumerate(ALL_OPTS):
        if i % N_SLICES != slice_no:
            continue
        for j, o2 in enumerate(ALL_OPTS):
            for e1 in EXITS:
                for e2 in EXITS:
                    tree = {"opts": o1, "via": "with", "exit": e1, "body": [{"opts": o2, "via": "with", "exit": e2, "body": [], "caught": True}]}
                    h = HistoryRun(g0)
                    h.run(tree)
                    n += 1
                    distinct.add((i, j, e1, e2))
                    for k, v in h.stats.items():
                        stats[k] = stats.get(k, 0) + v
                    for klass, detail in h.violations:
                        vio.append((klass, detail, {"kind": "history", "tree": tree}))
    stats["histories_exhaustive_depth2"] = stats.get("histories_exhaustive_depth2", 0) + n
    stats["evaluations"] = stats.get("evaluations", 0) + n
    log.add("exhaustive", slice_no, n, len(vio))
    return len(distinct)


def run_matrix(log, stats, vio):
    """(c)(i): every labelled case x 3 context depths (+ no context) x eager/lazy."""
    from pandera.config import ValidationDepth, config_context
    g0 = global0_tuple()
    restore_pristine()
    n = 0
    for ci, (backend, container, name, level, kind, mk_s, mk_d) in enumerate(depthcases.all_cases()):
        for depth in ["SCHEMA_ONLY", "DATA_ONLY", "SCHEMA_AND_DATA", None]:
            for lazy in (False, True):
                if depth is None:
                    res = eval_case(backend, container, name, level, kind, mk_s, mk_d, lazy, True, None, g0[1])
                else:
                    with config_context(validation_depth=ValidationDepth[depth]):
                        res = eval_case(backend, container, name, level, kind, mk_s, mk_d, lazy, True, depth, g0[1])
                n += 1
                for klass, detail in res:
                    vio.append((klass, detail, {"kind": "matrix", "case": ci, "depth": depth, "lazy": lazy}))
                log.add("cell", ci, depth, lazy, [k for k, _ in res])
        # validation disabled: validate returns its argument untouched
        for lazy in (False, True):
            with config_context(validation_enabled=False):
                res = eval_case(backend, container, name, level, kind, mk_s, mk_d, lazy, False, None, g0[1])
            n += 1
            for klass, detail in res:
                vio.append((klass, detail, {"kind": "matrix", "case": ci, "depth": "disabled", "lazy": lazy}))
    stats["matrix_cells"] = stats.get("matrix_cells", 0) + n
    stats["evaluations"] = stats.get("evaluations", 0) + n
    return n


def depth_equivalence(rng, log, stats, vio, keys):
    """(c)(ii): accept_SAD <=> accept_SO and accept_DO on a seeded scenario; polars defaults by container kind."""
    from pandera.config import ValidationDepth, config_context
    restore_pristine()
    g = world.SpecGen(rng, want_callbacks=0.3, deny=("drop_invalid_rows", "name_collision", "custom_dtype"))
    spec = g.schema()
    try:
        subject = world.build_schema(spec)
    except Exception:  # noqa: BLE001
        return
    fr = g.frame_for(spec, conform=0.5)
    lazy = rng.random() < 0.5
    pl_lazy = spec["backend"] == "polars" and rng.random() < 0.5
    verdict = {}
    faults.install(faults.FaultState())
    for depth in ["SCHEMA_ONLY", "DATA_ONLY", "SCHEMA_AND_DATA", None]:
        d = world.build_frame(fr, spec["backend"], spec["kind"], lazy=pl_lazy)
        subject = world.build_schema(spec)      # a fresh schema per depth: hidden state across calls is C05's subject, not C18's
        try:
            if depth is None:
                subject.validate(d, lazy=lazy)
            else:
                with config_context(validation_depth=ValidationDepth[depth]):
                    subject.validate(d, lazy=lazy)
            verdict[depth] = True
        except BaseException as e:  # noqa: BLE001
            if isinstance(e, (KeyboardInterrupt, SystemExit)):
                raise
            verdict[depth] = False
    stats["depth_equivalence_scenarios"] = stats.get("depth_equivalence_scenarios", 0) + 1
    stats["evaluations"] = stats.get("evaluations", 0) + 1
    shape = (spec["backend"], spec["kind"], pl_lazy, verdict["SCHEMA_ONLY"], verdict["DATA_ONLY"], verdict["SCHEMA_AND_DATA"])
    keys.add(kernel.digest_of(["eqv", spec, fr, lazy, pl_lazy]))
    log.add("eqv", shape)
    payload = {"kind": "equiv", "spec": spec, "frame": fr, "lazy": lazy, "pl_lazy": pl_lazy}
    if verdict["SCHEMA_AND_DATA"] != (verdict["SCHEMA_ONLY"] and verdict["DATA_ONLY"]):
        stats["probe.equiv_mismatch"] = stats.get("probe.equiv_mismatch", 0) + 1
        vio.append((f"equiv|{spec['backend']}|{spec['kind']}|SO={int(verdict['SCHEMA_ONLY'])},DO={int(verdict['DATA_ONLY'])},SAD={int(verdict['SCHEMA_AND_DATA'])}",
                    f"accept_SAD={verdict['SCHEMA_AND_DATA']} but accept_SO={verdict['SCHEMA_ONLY']} and accept_DO={verdict['DATA_ONLY']}", payload))
    container = "pl.LazyFrame" if pl_lazy else ("pl.DataFrame" if spec["backend"] == "polars" else "pd")
    default_depth = depthcases.effective_depth(spec["backend"], container, None, global0_tuple()[1])
    if verdict[None] != verdict[default_depth]:
        vio.append((f"default-depth|{spec['backend']}|{spec['kind']}|{container}|{default_depth}",
                    f"verdict without configuration ({verdict[None]}) differs from verdict under the documented default depth "
                    f"{default_depth} ({verdict[default_depth]})", payload))


def run_one(seed, tier, idx):
    rng = kernel.derive(seed, PROP, idx)
    kernel.reseed_ambient(rng)
    log = kernel.EventLog()
    global0_tuple()
    world.warm_registries()
    stats, vio, keys = {}, [], set()
    distinct_extra = 0
    sample = None
    steps = 0
    if idx < N_SLICES:
        distinct_extra = run_exhaustive_slice(idx, log, stats, vio)
        if idx == 0:
            distinct_extra += run_matrix(log, stats, vio)
    else:
        g0 = global0_tuple()
        for _ in range(40):
            tree = gen_tree(rng, rng.choice([2, 3, 3, 4, 4]))
            h = HistoryRun(g0)
            h.run(tree)
            steps += h.steps
            stats["histories_seeded"] = stats.get("histories_seeded", 0) + 1
            stats["evaluations"] = stats.get("evaluations", 0) + 1
            stats["probe.nesting_depth_%d" % h.max_depth] = stats.get("probe.nesting_depth_%d" % h.max_depth, 0) + 1
            for k, v in h.stats.items():
                stats[k] = stats.get(k, 0) + v
            dg = kernel.digest_of(tree)
            log.add("tree", dg, [k for k, _ in h.violations])
            if h.max_depth >= 2:
                keys.add(dg)
            for klass, detail in h.violations:
                vio.append((klass, detail, {"kind": "history", "tree": tree}))
            if sample is None and idx % 50 == 16:
                sample = {"history_tree": tree}
        for _ in range(12):
            depth_equivalence(rng, log, stats, vio, keys)
    out, seen = [], set()
    for klass, detail, payload in vio:
        if klass in seen:
            continue
        seen.add(klass)
        out.append(Violation(PROP, klass, detail, payload).to_json())
    return {"run": idx, "digest": log.digest(), "keys": sorted(keys), "distinct_extra": distinct_extra, "steps": steps,
            "stats": stats, "violations": out, "sample": sample}


# ---------------------------------------------------------------------------------------------
# (b) environment matrix in fresh interpreters - run from the main process
# ---------------------------------------------------------------------------------------------
ENV_BOOL = [None, "True", "False"]
ENV_DEPTH = [None, "SCHEMA_ONLY", "DATA_ONLY", "SCHEMA_AND_DATA"]


def all_env_assignments():
    out = []
    for e, d, c, k in itertools.product(ENV_BOOL, ENV_DEPTH, ENV_BOOL, ENV_BOOL):
        a = {}
        if e is not None:
            a["PANDERA_VALIDATION_ENABLED"] = e
        if d is not None:
            a["PANDERA_VALIDATION_DEPTH"] = d
        if c is not None:
            a["PANDERA_CACHE_DATAFRAME"] = c
        if k is not None:
            a["PANDERA_KEEP_CACHED_DATAFRAME"] = k
        out.append(a)
    return out


def run_env_probe(assign):
    env = {k: v for k, v in os.environ.items() if not k.startswith("PANDERA_")}
    env.update(assign)
    cmd = [kernel.PY, os.path.join(kernel.VERIF_DIR, "sim", "envprobe.py")]
    r = subprocess.run(cmd, env=env, capture_output=True, text=True, timeout=300, cwd=kernel.VERIF_DIR)
    if r.returncode != 0:
        raise kernel.HarnessError(f"environment probe failed for {assign}: {r.stderr[-2000:]}")
    line = [ln for ln in r.stdout.splitlines() if ln.startswith("{")][-1]
    return json.loads(line)


def judge_env(assign, res):
    """Oracle for one simulated interpreter."""
    vio = []
    exp = (
        {"True": True, "False": False}.get(assign.get("PANDERA_VALIDATION_ENABLED"), True),
        assign.get("PANDERA_VALIDATION_DEPTH"),
        {"True": True, "False": False}.get(assign.get("PANDERA_CACHE_DATAFRAME"), False),
        {"True": True, "False": False}.get(assign.get("PANDERA_KEEP_CACHED_DATAFRAME"), False),
    )
    got = tuple(res["global"])
    for i, f in enumerate(FIELDS):
        if got[i] != exp[i]:
            var = "PANDERA_" + f.upper()
            vio.append((f"env|global|{f}|{var}={assign.get(var, '<unset>')}",
                        f"{var}={assign.get(var, '<unset>')}: get_config_global().{f} is {got[i]!r}, documented meaning {exp[i]!r}"))
    if tuple(res["context"]) != got:
        vio.append(("env|context-differs-from-global", f"get_config_context(None) {res['context']} != get_config_global() {res['global']}"))
    for klass, detail in res["violations"]:
        vio.append((klass, detail))
    return vio


def extra_main(seed, tier):
    assigns = all_env_assignments()
    records = []
    with ThreadPoolExecutor(max_workers=16) as ex:
        results = list(ex.map(run_env_probe, assigns))
    for i, (assign, res) in enumerate(zip(assigns, results)):
        vio = judge_env(assign, res)
        log = kernel.EventLog()
        log.add("env", sorted(assign.items()), res["global"], sorted(k for k, _ in vio))
        out, seen = [], set()
        for klass, detail in vio:
            if klass in seen:
                continue
            seen.add(klass)
            out.append(Violation(PROP, klass, detail, {"kind": "env", "assign": assign}).to_json())
        records.append({"run": 10 ** 6 + i, "digest": log.digest(), "keys": [kernel.digest_of(["env", assign])], "steps": 1,
                        "stats": {"evaluations": 1 + res["cells"], "env_interpreters": 1, "env_matrix_cells": res["cells"],
                                  "fault.process_restart_with_new_environment": 1},
                        "violations": out, "sample": ({"environment": assign, "global_config": res["global"]} if i == 37 else None)})
    return records


# ---------------------------------------------------------------------------------------------
def replay(payload):
    kind = payload["kind"]
    vio = []
    if kind == "history":
        h = HistoryRun(global0_tuple())
        h.run(copy.deepcopy(payload["tree"]))
        vio = h.violations
    elif kind == "matrix":
        log, stats, v = kernel.EventLog(), {}, []
        run_matrix(log, stats, v)
        vio = [(k, d) for k, d, p in v if p["case"] == payload["case"] and p["depth"] == payload["depth"] and p["lazy"] == payload["lazy"]]
    elif kind == "env":
        vio = judge_env(payload["assign"], run_env_probe(payload["assign"]))
    elif kind == "equiv":
        raise kernel.HarnessError("equiv payloads are replayed through replay_equiv")
    return [Violation(PROP, k, d, payload) for k, d in vio]


def _replay_equiv(payload):
    from pandera.config import ValidationDepth, config_context
    restore_pristine()
    spec, fr, lazy, pl_lazy = payload["spec"], payload["frame"], payload["lazy"], payload["pl_lazy"]
    subject = world.build_schema(spec)
    verdict = {}
    faults.install(faults.FaultState())
    for depth in ["SCHEMA_ONLY", "DATA_ONLY", "SCHEMA_AND_DATA", None]:
        d = world.build_frame(fr, spec["backend"], spec["kind"], lazy=pl_lazy)
        subject = world.build_schema(spec)      # a fresh schema per depth: hidden state across calls is C05's subject, not C18's
        try:
            if depth is None:
                subject.validate(d, lazy=lazy)
            else:
                with config_context(validation_depth=ValidationDepth[depth]):
                    subject.validate(d, lazy=lazy)
            verdict[depth] = True
        except BaseException as e:  # noqa: BLE001
            if isinstance(e, (KeyboardInterrupt, SystemExit)):
                raise
            verdict[depth] = False
    vio = []
    if verdict["SCHEMA_AND_DATA"] != (verdict["SCHEMA_ONLY"] and verdict["DATA_ONLY"]):
        vio.append((f"equiv|{spec['backend']}|{spec['kind']}|SO={int(verdict['SCHEMA_ONLY'])},DO={int(verdict['DATA_ONLY'])},SAD={int(verdict['SCHEMA_AND_DATA'])}", "replayed"))
    container = "pl.LazyFrame" if pl_lazy else ("pl.DataFrame" if spec["backend"] == "polars" else "pd")
    default_depth = depthcases.effective_depth(spec["backend"], container, None, global0_tuple()[1])
    if verdict[None] != verdict[default_depth]:
        vio.append((f"default-depth|{spec['backend']}|{spec['kind']}|{container}|{default_depth}", "replayed"))
    return [Violation(PROP, k, d, payload) for k, d in vio]


_replay_inner = replay


def replay(payload):  # noqa: F811
    if payload["kind"] == "equiv":
        return _replay_equiv(payload)
    return _replay_inner(payload)


def shrink_candidates(payload):
    if payload["kind"] == "history":
        tree = payload["tree"]
        # drop body items, flatten, simplify options
        def variants(node):
            for i in range(len(node["body"])):
                n = copy.deepcopy(node)
                n["body"].pop(i)
                yield n
            for i, c in enumerate(node["body"]):
                if "opts" in c:
                    for v in variants(c):
                        n = copy.deepcopy(node)
                        n["body"][i] = v
                        yield n
                    n = copy.deepcopy(c)      # hoist the child
                    n.pop("caught", None)
                    yield n
            if node["exit"] != "normal":
                n = copy.deepcopy(node)
                n["exit"] = "normal"
                yield n
            for f in FIELDS:
                if node["opts"][f] is not None:
                    n = copy.deepcopy(node)
                    n["opts"] = dict(n["opts"])
                    n["opts"][f] = None
                    yield n
        for v in variants(tree):
            yield {"kind": "history", "tree": v}
    elif payload["kind"] == "equiv":
        from checks import c06
        fake = {"scenario": {"spec": payload["spec"], "frame": payload["frame"], "mode": {"lazy": payload["lazy"]}, "kinds": [], "pairs_seed": 0}, "plan": {}}
        for cand in c06.shrink_candidates(fake):
            sc = cand["scenario"]
            yield {"kind": "equiv", "spec": sc["spec"], "frame": sc["frame"], "lazy": payload["lazy"], "pl_lazy": payload["pl_lazy"]}
