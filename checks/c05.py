"""C05 - schemas are observationally immutable: no operation leaves hidden state (operation histories).

One run = one seeded history of public-API operations over a pool of live schema subjects (subjects produced by
transforming / copying operations join the pool and may alias parts of their parent).  After EVERY operation, for
every subject in the pool: fingerprint == fingerprint at pool entry, subject == deep-copied snapshot; for the
touched subject (and for all at the end): verdicts on its probe frames == those of a twin freshly rebuilt from
the same JSON recipe that has never been operated on.
"""
from __future__ import annotations

import copy
import io
import random
import pathlib
import pickle

import pandas as pd

from sim import faults, kernel, world
from sim.fingerprint import classify, config_fp, diff_paths, fp, generalise
from sim.kernel import Violation
from sim.outcome import exc_name, run_call

PROP = "C05"
LEVEL = "exploration"


def plan(tier):
    return {"runs": 1400 if tier == "quick" else 24000, "timeout_s": 1500 if tier == "quick" else 6 * 3600}


def describe():
    return {
        "rule": ("one run = one seeded history (3-12 operations quick, up to 40 thorough) drawn from a swarm-selected subset of the public "
                 "non-transforming operations (validate eager/lazy/inplace-on-copy/head/tail/sample with passing, failing and mis-shaped data, "
                 "coerce_dtype, to_yaml/to_json/to_script to string and to a (fault-injecting, in-memory) path, from_yaml round trip, "
                 "schema statistics, strategy + seeded example draw, str/repr, ==/!=/hash, copy/deepcopy/pickle, dtypes/get_dtypes/"
                 "get_metadata/properties, calling a Check, decorators, model validate/to_schema/to_yaml/subclassing) and transforming "
                 "methods with valid and invalid arguments, over a pool of 1-4 live subjects; callback faults and disk faults are injected "
                 "inside operations. evaluations = operations executed. Non-trivial = at least two different operation kinds touched the "
                 "same subject; distinct = digest of (operation kinds x subject kinds x outcome classes) of the history."),
        "components": {"real": ["all of pandera (api, backends, io, schema_statistics, strategies, engines)", "pandas", "numpy", "polars", "hypothesis (seeded @given)"],
                       "simulator_owned": ["user callbacks + fault plans", "in-memory fault-injecting file objects behind pathlib.Path.open for serialisation to a path",
                                           "entropy of example draws (seeded @given instead of the unseedable .example() wrapper)"],
                       "stubbed": ["the six-line .example() wrapper around strategy(size).example() is replaced by a seeded draw of the same strategy"]},
        "assumptions": ["private memo attributes are not part of the fingerprint; observable attributes are (sim/fingerprint.py)",
                        "the reference for verdicts is a twin rebuilt from the same JSON recipe that was never operated on"],
    }


# ---------------------------------------------------------------------------------------------
# disk seam: in-memory fault-injecting files behind pathlib.Path.open
# ---------------------------------------------------------------------------------------------
SCRATCH_PREFIX = "/verif-sim-disk/"


class FaultyFile(io.StringIO):
    def __init__(self, fault, store, path):
        super().__init__()
        self.fault = fault or {}
        self.store = store
        self.path = path
        self.written = 0

    def write(self, s):
        kind = self.fault.get("kind")
        if kind == "enospc" and self.written + len(s) > self.fault["after"]:
            keep = max(0, self.fault["after"] - self.written)
            super().write(s[:keep])
            self.written += keep
            _DISK["fired"].append("enospc")
            raise OSError(28, "No space left on device (injected)")
        if kind == "short_write" and not self.fault.get("done") and len(s) > 1:
            self.fault["done"] = True
            n = len(s) // 2
            super().write(s[:n])
            self.written += n
            _DISK["fired"].append("short_write")
            return n
        if kind == "eio" and self.written + len(s) > self.fault["after"]:
            _DISK["fired"].append("eio")
            raise OSError(5, "Input/output error (injected)")
        self.written += len(s)
        return super().write(s)

    def close(self):
        if not self.closed:
            self.store[self.path] = self.getvalue()
        super().close()


_DISK = {"files": {}, "fault": None, "fired": [], "installed": False, "orig": None}


def _install_disk():
    if _DISK["installed"]:
        return
    orig = pathlib.Path.open
    _DISK["orig"] = orig

    def fake_open(self, mode="r", *a, **kw):
        p = str(self)
        if not p.startswith(SCRATCH_PREFIX):
            return orig(self, mode, *a, **kw)
        fault = _DISK["fault"]
        if "w" in mode:
            if fault and fault.get("kind") == "open_oserror":
                _DISK["fired"].append("open_oserror")
                raise OSError(5, "Input/output error on open (injected)")
            if fault and fault.get("kind") == "open_permission":
                _DISK["fired"].append("open_permission")
                raise PermissionError(13, "Permission denied (injected)")
            return FaultyFile(dict(fault) if fault else None, _DISK["files"], p)
        if p not in _DISK["files"]:
            raise FileNotFoundError(2, "No such file (simulated disk)", p)
        return io.StringIO(_DISK["files"][p])

    pathlib.Path.open = fake_open
    _DISK["installed"] = True


# ---------------------------------------------------------------------------------------------
# subjects
# ---------------------------------------------------------------------------------------------
class Subject:
    def __init__(self, recipe, obj, probes, label, lazy=False):
        self.recipe = recipe          # JSON: [["build", spec], ["transform", name, args], ...]
        self.obj = obj
        self.label = label            # e.g. pandas/dfs, polars/column, pandas/model
        self.probes = probes          # frame specs
        # A DataFrameModel compiles and caches its schema on first use.  A *lazy* model subject is left uncompiled until a
        # history operation touches it (so that e.g. a subclass can be the first of the family to be compiled): its entry
        # fingerprint is that of a twin class built from the same recipe (equal by construction), and it has no `==` snapshot.
        self.lazy = bool(lazy and isinstance(obj, type))
        self.touched = not self.lazy
        if self.lazy:
            twin = build_from_recipe(recipe)
            self.fp0 = fp(twin.to_schema())
            self.snapshot, self.eq_ok = None, None
        else:
            self.fp0 = self.fingerprint()
            self.snapshot = self._snap()
            self.eq_ok = self._eq_snapshot()
        self.ref = None               # twin verdicts, computed lazily from a fresh twin
        self.op_kinds = set()

    @property
    def spec(self):
        return self.recipe[0][1]

    def schema_obj(self):
        return self.obj.to_schema() if isinstance(self.obj, type) else self.obj

    def fingerprint(self):
        return fp(self.schema_obj())

    def _snap(self):
        try:
            return copy.deepcopy(self.schema_obj())
        except Exception:  # noqa: BLE001
            return None

    def _eq_snapshot(self):
        if self.snapshot is None:
            return None
        try:
            return bool(self.schema_obj() == self.snapshot)
        except Exception:  # noqa: BLE001
            return None


def _warm_registries():
    """With cold registries a model's built-in check holds a copy of a dispatcher that is re-bound to the fuller
    registry dispatcher on first call, which flips pandera's bytecode-based Check.__eq__ without any functional
    difference - an `eq-only` artefact of process start-up order (see DESIGN.md); runs start warm."""
    world.warm_registries()


def build_from_recipe(recipe):
    obj = world.build_schema(recipe[0][1])
    for step in recipe[1:]:
        obj = apply_transform(obj, step[1], step[2])
    return obj


def apply_transform(obj, name, args):
    """Transforming methods (return a new schema)."""
    if name == "add_columns":
        return obj.add_columns({k: world.build_column(v, args.get("backend", "pandas"), with_name=False) for k, v in args["cols"].items()})
    if name == "remove_columns":
        return obj.remove_columns(list(args["cols"]))
    if name == "update_column":
        return obj.update_column(args["col"], **args["kw"])
    if name == "update_columns":
        return obj.update_columns({k: dict(v) for k, v in args["upd"].items()})
    if name == "rename_columns":
        return obj.rename_columns(dict(args["map"]))
    if name == "select_columns":
        return obj.select_columns(list(args["cols"]))
    if name == "set_index":
        return obj.set_index(list(args["keys"]), drop=args.get("drop", True), append=args.get("append", False))
    if name == "reset_index":
        return obj.reset_index(level=args.get("level"), drop=args.get("drop", False))
    if name == "update_checks":
        return obj.update_checks([world.build_check(c, "pandas") for c in args["checks"]])
    if name == "set_checks":
        return obj.set_checks([world.build_check(c, "pandas") for c in args["checks"]])
    if name == "share_columns":
        # a second schema built by the user from the *same* Column objects (so the same Check and dtype instances)
        return type(obj)(columns=dict(obj.columns), strict=args.get("strict", False), coerce=args.get("coerce", False), name="S2")
    if name == "copy":
        return copy.copy(obj)
    if name == "deepcopy":
        return copy.deepcopy(obj)
    raise ValueError(name)


def do_validate(subject_obj, spec, frame_spec, mode):
    d = world.build_frame(frame_spec, spec["backend"], spec["kind"] if spec["kind"] != "model" else "dfs", lazy=mode.get("pl_lazy", False))
    kw = {"lazy": mode.get("lazy", False)}
    for k in ("head", "tail", "sample", "random_state", "inplace"):
        if mode.get(k) is not None:
            kw[k] = mode[k]
    return subject_obj.validate(d, **kw)


def verdicts(obj, spec, probes):
    out = []
    for pr in probes:
        for lazy in (False, True):
            faults.install(faults.FaultState())
            o = run_call(lambda: do_validate(obj, spec, pr, {"lazy": lazy and not _eager_only(spec)}))
            out.append(o.canon)
    return out


def _eager_only(spec):
    return False


# ---------------------------------------------------------------------------------------------
# history generation
# ---------------------------------------------------------------------------------------------
NONTRANSFORMING = ["validate", "validate_fault", "coerce_dtype", "to_yaml", "to_json", "to_script", "to_path", "yaml_roundtrip",
                   "statistics", "strategy", "str_repr", "compare", "copy_ops", "pickle", "introspect", "call_check", "decorators",
                   "model_ops", "subclass_model", "infer_like_io"]
TRANSFORMING = ["add_columns", "remove_columns", "update_column", "update_columns", "rename_columns", "select_columns",
                "set_index", "reset_index", "update_checks", "set_checks", "copy", "deepcopy", "share_columns"]
DISK_FAULTS = [None, None, {"kind": "open_oserror"}, {"kind": "open_permission"}, {"kind": "enospc", "after": 40},
               {"kind": "eio", "after": 10}, {"kind": "short_write"}]

SPECIAL_DTYPES = ["datetime_tz_agnostic"]


def gen_history(rng, idx, tier):
    g = world.SpecGen(rng, want_callbacks=0.45, deny=())
    # allow the name-collision and tz-agnostic features explicitly (swarm)
    nsub = rng.choice([1, 1, 2, 2, 3])
    subjects = []
    for _ in range(nsub):
        for _try in range(10):
            gg = world.SpecGen(rng, want_callbacks=0.45)
            kind = rng.choice(["dfs", "dfs", "dfs", "dfs", "series", "column", "index", "model"])
            backend = rng.choice(["pandas", "pandas", "pandas", "polars"])
            if backend == "polars" and kind in ("series", "index"):
                kind = "dfs"
            spec = gg.schema(kind=kind, backend=backend)
            if rng.random() < 0.12 and kind == "dfs":
                spec["columns"].append({"name": "tz", "dtype": "datetime_tz_agnostic", "nullable": False, "unique": False,
                                        "coerce": backend == "polars" and kernel.derive(rng.getrandbits(16), "tzc").random() < 0.5,
                                        "required": True, "regex": False, "default": None, "checks": [], "parsers": []})
            try:
                world.build_schema(spec)
            except Exception:  # noqa: BLE001
                continue
            probes = [gg.frame_for(spec, conform=1.0), gg.frame_for(spec, conform=0.0), gg.frame_for(spec, conform=0.3)]
            subjects.append({"spec": spec, "probes": probes})
            if kind == "model":
                subjects[-1]["lazy_compile"] = kernel.derive(rng.getrandbits(32), "lazy").random() < 0.5
            break
    if not subjects:
        raise kernel.HarnessError("no constructible subject")
    enabled = [o for o in NONTRANSFORMING if rng.random() < 0.6] or ["validate"]
    enabled_t = [o for o in TRANSFORMING if rng.random() < 0.4]
    n_ops = rng.randint(3, 12) if tier == "quick" else rng.randint(3, 40)
    ops = []
    for _ in range(n_ops):
        kind = rng.choice(enabled_t) if (enabled_t and rng.random() < 0.25) else rng.choice(enabled)
        ops.append({"op": kind, "subject": rng.randrange(8), "r": rng.getrandbits(30)})
    # a lazily compiled model is only interesting if something other than the model itself is the first of its family to be
    # compiled: put a subclass definition first in most such histories (own stream)
    for si, sub in enumerate(subjects):
        if sub.get("lazy_compile"):
            r3 = kernel.derive(rng.getrandbits(32), "lazy-first")
            if r3.random() < 0.6:
                ops.insert(0, {"op": "subclass_model", "subject": si, "r": r3.getrandbits(30)})
            break
    hist = {"subjects": subjects, "ops": ops}
    # ambient configuration (own stream): the whole history may run inside a config_context of the caller; every operation
    # must leave *that* configuration in force
    r2 = kernel.derive(rng.getrandbits(32), "ambient")
    if r2.random() < 0.3:
        from checks import c06
        hist["ambient"] = r2.choice(c06.AMBIENT)
    return hist


# ---------------------------------------------------------------------------------------------
# history execution
# ---------------------------------------------------------------------------------------------
class World:
    def __init__(self, hist, reset_config=True):
        _install_disk()
        _DISK["files"].clear()
        _DISK["fault"] = None
        _DISK["fired"].clear()
        from pandera import config
        if reset_config:
            config.reset_config_context()
        faults.install(faults.FaultState())
        _warm_registries()
        self.hist = hist
        self.pool = []
        self.stats = {}
        self.log = kernel.EventLog()
        self.violations = []    # (class, detail, op_index)
        self.cfg0 = config_fp()
        for s in hist["subjects"]:
            recipe = [["build", s["spec"]]]
            obj = build_from_recipe(recipe)
            self.pool.append(Subject(recipe, obj, s["probes"], f"{s['spec']['backend']}/{s['spec']['kind']}", lazy=s.get("lazy_compile")))

    def bump(self, k, n=1):
        self.stats[k] = self.stats.get(k, 0) + n

    # ---- oracles ----------------------------------------------------------------------------------
    def check_all(self, op_index, opname, touched):
        found = []
        for si, s in enumerate(self.pool):
            if not s.touched:
                continue        # a lazy model subject nobody has used yet stays uncompiled
            f1 = s.fingerprint()
            if f1 != s.fp0:
                for what in classify(diff_paths(s.fp0, f1, limit=40)):
                    found.append((f"fp|{what}|op={opname}|{s.label.split('>')[0]}",
                                  f"subject {si} ({s.label}) fingerprint changed at {diff_paths(s.fp0, f1)} after op #{op_index} {opname} on subject {touched}"))
            elif s.eq_ok:
                try:
                    same = bool(s.schema_obj() == s.snapshot)
                except Exception as e:  # noqa: BLE001
                    same = f"raised {exc_name(e)}"
                if same is not True:
                    found.append((f"eq-only|op={opname}", f"subject {si} no longer == its snapshot ({same}) although no observable attribute differs"))
        c1 = config_fp()
        if c1 != self.cfg0:
            found.append((f"config|{','.join(sorted(generalise(p) for p in diff_paths(self.cfg0, c1)))}|op={opname}",
                          f"process configuration changed by {opname}: {c1}"))
        return found

    def check_verdicts(self, si, op_index, opname):
        s = self.pool[si]
        if s.ref is None:
            twin = build_from_recipe(s.recipe)
            s.ref = verdicts(twin, s.spec, s.probes)
            self.bump("twin_builds")
        got = verdicts(s.obj, s.spec, s.probes)
        self.bump("probe_validations", len(got))
        found = []
        for k, (a, b) in enumerate(zip(s.ref, got)):
            if a != b:
                found.append((f"verdict|{s.label.split('>')[0]}|op={opname}",
                              f"subject {si} ({s.label}) verdict on probe {k // 2} (lazy={bool(k % 2)}) is {_shape(b)}, a never-used twin gives {_shape(a)}; after op #{op_index} {opname}"))
                break
        return found

    def check_fresh_frames(self, si, n=2):
        """'Its verdict on *any* data is the same': frames generated only now (own PRNG stream derived from the history),
        judged by the used subject and by a never-used twin."""
        s = self.pool[si]
        rng = kernel.derive(kernel.digest_of([self.hist["subjects"], len(self.hist["ops"])]), "fresh-frames", si)
        gg = world.SpecGen(rng)
        frames = [gg.frame_for(s.spec, conform=rng.choice([0.0, 0.5, 1.0])) for _ in range(n)]
        twin = build_from_recipe(s.recipe)
        a = verdicts(twin, s.spec, frames)
        b = verdicts(s.obj, s.spec, frames)
        self.bump("fresh_frame_validations", len(b))
        for k, (x, y) in enumerate(zip(a, b)):
            if x != y:
                return [(f"verdict|{s.label.split('>')[0]}|op=end-of-history",
                         f"subject {si} ({s.label}) verdict on a fresh frame (lazy={bool(k % 2)}) is {_shape(y)}, a never-used twin gives {_shape(x)}")]
        return []

    # ---- running ------------------------------------------------------------------------------------
    def run(self, stop_at_first=True):
        for i, op in enumerate(self.hist["ops"]):
            si = op["subject"] % len(self.pool)
            s = self.pool[si]
            rng = kernel.derive(op["r"], "op")
            name = op["op"]
            s.touched = True
            try:
                res = self.execute(name, s, si, rng)
            except kernel.HarnessError:
                raise
            self.bump("evaluations")
            self.bump("op." + name)
            s.op_kinds.add(name)
            self.log.add(i, name, si, s.label, res)
            found = self.check_all(i, name, si)
            # verdict probes for the touched subject; the probe validations are operations of the history themselves
            if not found:
                found += self.check_verdicts(si, i, name)
            if not found:
                found += self.check_all(i, "validate", si)
            for klass, detail in found:
                self.violations.append((klass, detail, i))
            if found and stop_at_first:
                return
        # end of history: every subject's verdicts, on its probe frames and on fresh frames it has never seen
        for si in range(len(self.pool)):
            self.pool[si].touched = True
            found = self.check_verdicts(si, len(self.hist["ops"]), "end-of-history")
            if not found:
                found = self.check_fresh_frames(si)
            found += self.check_all(len(self.hist["ops"]), "validate", si)
            for klass, detail in found:
                self.violations.append((klass, detail, len(self.hist["ops"])))
            if found:
                return

    def execute(self, name, s, si, rng):
        """Runs one operation; returns a short outcome class for the event log. Exceptions of pandera operations are
        outcomes, not harness errors."""
        try:
            return OPS[name](self, s, si, rng)
        except kernel.HarnessError:
            raise
        except BaseException as e:  # noqa: BLE001
            if isinstance(e, (SystemExit, MemoryError)):
                raise
            return "raised:" + exc_name(e)
        finally:
            faults.install(faults.FaultState())
            _DISK["fault"] = None


def _shape(c):
    if "returned" in c:
        return "returned"
    if "errors" in c:
        return "SchemaErrors[" + ",".join(sorted({x["reason"] for x in c["errors"]})) + "]"
    if "error" in c:
        return "SchemaError[" + c["error"]["reason"] + "]"
    return c["raised"]


def _is_dfs(s):
    return s.spec["kind"] == "dfs" and s.spec["backend"] == "pandas" and not isinstance(s.obj, type)


def _pandas_schema(s):
    """pandas DataFrameSchema object for IO-style operations (model -> its schema)."""
    if s.spec["backend"] != "pandas":
        return None
    o = s.schema_obj()
    import pandera as pa
    return o if isinstance(o, pa.DataFrameSchema) else None


# ---- operations -----------------------------------------------------------------------------------
def op_validate(w, s, si, rng):
    gg = world.SpecGen(rng)
    fr = rng.choice(s.probes) if rng.random() < 0.6 else gg.frame_for(s.spec, conform=rng.choice([0.0, 0.5, 1.0]))
    mode = {"lazy": rng.random() < 0.5}
    if s.spec["backend"] == "pandas":
        if rng.random() < 0.3:
            mode["head"] = rng.choice([1, 2])
        if rng.random() < 0.2:
            mode["tail"] = 1
        if rng.random() < 0.2:
            mode["sample"] = 1
            mode["random_state"] = rng.randrange(100)
        if rng.random() < 0.2:
            mode["inplace"] = True      # on a private copy (build_frame always builds a fresh object)
    else:
        mode["pl_lazy"] = rng.random() < 0.4
    o = run_call(lambda: do_validate(s.obj, s.spec, fr, mode))
    w.bump("probe.validate_" + ("raised" if o.raised else "returned"))
    return _shape(o.canon)


def op_validate_fault(w, s, si, rng):
    gg = world.SpecGen(rng)
    fr = rng.choice(s.probes)
    k = rng.choice([1, 1, 2, 3, 5])
    kind = rng.choice(faults.KINDS)
    st = faults.install(faults.FaultState({k: kind}))
    o = run_call(lambda: do_validate(s.obj, s.spec, fr, {"lazy": rng.random() < 0.5}))
    if st.fired:
        w.bump("fault." + kind)
    return _shape(o.canon) + ("|fired" if st.fired else "")


def op_coerce_dtype(w, s, si, rng):
    obj = s.schema_obj()
    d = world.build_frame(rng.choice(s.probes), s.spec["backend"], s.spec["kind"] if s.spec["kind"] != "model" else "dfs")
    if s.spec["kind"] == "index":
        d = d.index
    r = obj.coerce_dtype(d)
    return "ok:" + type(r).__name__


def op_to_yaml(w, s, si, rng):
    o = _pandas_schema(s) or s.schema_obj()
    return "len%d" % (len(o.to_yaml()) // 10 ** 6)


def op_to_json(w, s, si, rng):
    o = _pandas_schema(s) or s.schema_obj()
    return "len%d" % (len(o.to_json()) // 10 ** 6)


def op_to_script(w, s, si, rng):
    o = _pandas_schema(s) or s.schema_obj()
    return "len%d" % (len(o.to_script()) // 10 ** 6)


def op_to_path(w, s, si, rng):
    o = _pandas_schema(s) or s.schema_obj()
    fault = rng.choice(DISK_FAULTS)
    _DISK["fault"] = dict(fault) if fault else None
    before = len(_DISK["fired"])
    which = rng.choice(["yaml", "json", "script"])
    path = pathlib.Path(SCRATCH_PREFIX + f"schema_{si}.{which}")
    try:
        if which == "yaml":
            o.to_yaml(path)
        elif which == "json":
            o.to_json(path)
        else:
            o.to_script(path)
    finally:
        for f in _DISK["fired"][before:]:
            w.bump("fault.disk_" + f)
        _DISK["fault"] = None
    return which + ":written"


def op_yaml_roundtrip(w, s, si, rng):
    o = _pandas_schema(s) or s.schema_obj()
    y = o.to_yaml()
    o2 = type(o).from_yaml(y)
    return "roundtrip:" + type(o2).__name__


def op_statistics(w, s, si, rng):
    from pandera import schema_statistics as ss
    o = s.schema_obj()
    import pandera as pa
    if isinstance(o, pa.DataFrameSchema):
        ss.get_dataframe_schema_statistics(o)
        return "df-stats"
    if isinstance(o, pa.SeriesSchema):
        ss.get_series_schema_statistics(o)
        return "series-stats"
    if isinstance(o, pa.Index):
        ss.get_index_schema_statistics(o)
        return "index-stats"
    if isinstance(o, pa.Column):
        ss.parse_checks(o.checks)
        return "col-checks-stats"
    return "n/a"


def op_strategy(w, s, si, rng):
    if s.spec["backend"] != "pandas":
        o = s.schema_obj()
        o.strategy(size=2)      # documented NotImplementedError on polars
        return "n/a"
    from hypothesis import HealthCheck, Phase, given, seed, settings
    o = s.schema_obj()
    strat = o.strategy(size=rng.choice([0, 1, 3]))
    drawn = []

    @seed(rng.getrandbits(30))
    @settings(max_examples=1, database=None, phases=[Phase.generate], deadline=None,
              suppress_health_check=list(HealthCheck), derandomize=False)
    @given(strat)
    def draw(x):
        drawn.append(type(x).__name__)

    draw()
    w.bump("probe.example_drawn")
    return "drawn:" + ",".join(drawn)


def op_str_repr(w, s, si, rng):
    o = s.schema_obj()
    a, b = str(o), repr(o)
    for c in getattr(o, "checks", []) or []:
        str(c), repr(c)
    return "ok"


def op_compare(w, s, si, rng):
    o = s.schema_obj()
    snap = s.snapshot if s.snapshot is not None else copy.deepcopy(o)
    r = [o == snap, o != snap, o == 5]
    for c in getattr(o, "checks", []) or []:
        hash(c)
        r.append(c == copy.deepcopy(c))
    cols = getattr(o, "columns", None)
    if isinstance(cols, dict):
        for col in cols.values():
            for c in col.checks:
                hash(c)
                c == c  # noqa: B015
    return "cmp:" + ",".join(str(bool(x)) for x in r[:3])


def op_copy_ops(w, s, si, rng):
    o = s.schema_obj()
    c1, c2 = copy.copy(o), copy.deepcopy(o)
    return f"copy:{c1 == o},{c2 == o},{c1 is not o}"


def op_pickle(w, s, si, rng):
    o = s.schema_obj()
    o2 = pickle.loads(pickle.dumps(o))
    return f"pickle:{o2 == o}"


def op_introspect(w, s, si, rng):
    o = s.schema_obj()
    out = []
    for attr in ("dtypes", "properties", "names", "unique", "coerce", "dtype"):
        if hasattr(o, attr):
            try:
                getattr(o, attr)
                out.append(attr)
            except Exception as e:  # noqa: BLE001
                out.append(attr + "!" + exc_name(e))
    if hasattr(o, "get_metadata"):
        o.get_metadata()
    if hasattr(o, "get_dtypes") and s.spec["backend"] == "pandas":
        d = world.build_frame(rng.choice(s.probes), "pandas", "dfs")
        o.get_dtypes(d)
        out.append("get_dtypes")
    return ",".join(out)


def op_call_check(w, s, si, rng):
    o = s.schema_obj()
    checks = list(getattr(o, "checks", []) or [])
    cols = getattr(o, "columns", None)
    if isinstance(cols, dict):
        for col in cols.values():
            checks += list(col.checks)
    if not checks or s.spec["backend"] != "pandas":
        return "n/a"
    chk = rng.choice(checks)
    data = rng.choice([pd.Series([1, 2, -3]), pd.Series(["a", "b"]), pd.Series([1.5, None]), pd.DataFrame({"c0": [1, 2], "c1": [3, 4]})])
    r = chk(data)
    return "check:" + str(bool(r.check_passed)) if not hasattr(r.check_passed, "all") else "check:vec"


def op_decorators(w, s, si, rng):
    import pandera as pa
    o = _pandas_schema(s)
    if o is None:
        return "n/a"
    d = world.build_frame(rng.choice(s.probes), "pandas", "dfs")
    which = rng.choice(["in", "out", "io"])
    if which == "in":
        @pa.check_input(o, lazy=rng.random() < 0.5)
        def f(df):
            return 1
        f(d)
    elif which == "out":
        @pa.check_output(o)
        def f(df):
            return df
        f(d)
    else:
        @pa.check_io(df=o, out=o)
        def f(df):
            return df
        f(d)
    return "deco:" + which


def op_model_ops(w, s, si, rng):
    if not isinstance(s.obj, type):
        return "n/a"
    m = s.obj
    a = m.to_schema()
    b = m.to_schema()
    out = [a is b or a == b]
    if s.spec["backend"] == "pandas":
        m.to_yaml()
        m.to_json_schema() if rng.random() < 0.3 else None
    return "model:" + str(out)


def op_subclass_model(w, s, si, rng):
    if not isinstance(s.obj, type):
        return "n/a"
    m = s.obj
    ns = {"__annotations__": {"extra_col": int}}
    if rng.random() < 0.5 and s.spec["columns"]:
        import pandera as pa
        import pandera.polars as pap
        mod = pap if s.spec["backend"] == "polars" else pa
        ns["__annotations__"][s.spec["columns"][0]["name"]] = float      # override a parent's field
        ns[s.spec["columns"][0]["name"]] = mod.Field(nullable=True)
    sub = type(m)("Sub" + m.__name__, (m,), ns)
    sc = sub.to_schema()
    w.bump("probe.subclass_compiled")
    return "sub:" + str(len(sc.columns))


def op_infer_like_io(w, s, si, rng):
    """from_yaml(to_yaml()) then validating with the re-read schema; and get statistics twice in a row."""
    o = _pandas_schema(s)
    if o is None:
        return "n/a"
    from pandera import schema_statistics as ss
    a = ss.get_dataframe_schema_statistics(o)
    b = ss.get_dataframe_schema_statistics(o)
    return "stats-twice:" + str(kernel.digest_of(repr(a)) == kernel.digest_of(repr(b)))


def _transform(name):
    def run(w, s, si, rng):
        o = s.obj
        spec = s.spec
        if isinstance(o, type):
            return "n/a"
        args = gen_transform_args(name, s, rng)
        if args is None:
            return "n/a"
        fp_before = s.fingerprint()
        res = apply_transform(o, name, args)
        if res is o:
            w.violations.append((f"transform|returned-receiver|op={name}", f"{name} returned the receiver itself", -1))
        # result joins the pool (may alias parts of its parent)
        if len(w.pool) < 6:
            recipe = copy.deepcopy(s.recipe) + [["transform", name, args]]
            child = Subject(recipe, res, s.probes, s.label + ">" + name)
            # a twin built by replaying the recipe on fresh objects must look the same as the result obtained from the live parent
            twin = build_from_recipe(recipe)
            if fp(twin) != child.fp0:
                paths = classify(diff_paths(fp(twin), child.fp0, limit=40))
                w.violations.append((f"twin-diverges|{','.join(paths)}|op={name}",
                                     f"{name} on the live subject yields a schema that differs from the same call on a never-used twin at {diff_paths(fp(twin), child.fp0)}", -1))
            w.pool.append(child)
            w.bump("probe.derived_subject_joined_pool")
        return "new:" + type(res).__name__
    return run


def gen_transform_args(name, s, rng):
    o = s.obj
    cols = list(getattr(o, "columns", {}) or {}) if hasattr(o, "columns") and isinstance(getattr(o, "columns", None), dict) else []
    import pandera as pa
    is_df = isinstance(o, pa.DataFrameSchema) and s.spec["backend"] == "pandas" and not isinstance(o, pa.MultiIndex)
    invalid = rng.random() < 0.3
    noop = random.Random(rng.getrandbits(32)).random() < 0.15     # a request that changes nothing must still return a new schema
    if name in ("copy", "deepcopy"):
        return {}
    if name == "share_columns":
        import pandera.polars as pap0
        if isinstance(o, type) or not isinstance(o, (pa.DataFrameSchema, pap0.DataFrameSchema)) or isinstance(o, pa.MultiIndex):
            return None
        return {"strict": rng.random() < 0.3, "coerce": rng.random() < 0.4}
    if name in ("update_checks", "set_checks"):
        if not hasattr(o, name) or s.spec["backend"] != "pandas":
            return None
        gg = world.SpecGen(rng, want_callbacks=0.3)
        return {"checks": [gg.builtin_check("int64")]}
    import pandera.polars as pap
    is_pl_df = isinstance(o, pap.DataFrameSchema) and s.spec["backend"] == "polars"
    if noop and (is_df or is_pl_df) and name in ("rename_columns", "remove_columns", "add_columns", "update_columns", "select_columns"):
        if name == "rename_columns":
            return {"map": ({c: c for c in cols[:1]} if rng.random() < 0.5 else {})}
        if name == "remove_columns":
            return {"cols": []}
        if name == "add_columns":
            return {"cols": {}, "backend": s.spec["backend"]}
        if name == "update_columns":
            return {"upd": {}}
        return {"cols": list(cols)} if cols else None
    if is_pl_df and name in ("add_columns", "remove_columns", "update_column", "update_columns", "rename_columns", "select_columns"):
        gg = world.SpecGen(rng, want_callbacks=0.3, backend="polars")
        if name == "add_columns":
            return {"cols": {"added": gg.column("added", "polars")}, "backend": "polars"}
        if name == "update_column":
            if invalid or not cols:
                return {"col": "nope", "kw": {"nullable": True}}
            return {"col": rng.choice(cols), "kw": rng.choice([{"nullable": True}, {"coerce": True}, {"unique": True}, {"name": "zz"}])}
    elif not is_df:
        return None
    gg = world.SpecGen(rng, want_callbacks=0.3)
    if name == "add_columns":
        return {"cols": {"added": gg.column("added", "pandas")}}
    if name == "remove_columns":
        return {"cols": ["nope"] if invalid or not cols else [rng.choice(cols)]}
    if name == "update_column":
        if invalid or not cols:
            return {"col": "nope", "kw": {"nullable": True}}
        return {"col": rng.choice(cols), "kw": rng.choice([{"nullable": True}, {"coerce": True}, {"dtype": "float64"}, {"unique": True}, {"name": "zz"}])}
    if name == "update_columns":
        if invalid or not cols:
            return {"upd": {"nope": {"nullable": True}}}
        return {"upd": {rng.choice(cols): rng.choice([{"nullable": True}, {"coerce": True}])}}
    if name == "rename_columns":
        if invalid or not cols:
            return {"map": {"nope": "x"}}
        return {"map": {rng.choice(cols): "renamed_col"}}
    if name == "select_columns":
        if invalid or not cols:
            return {"cols": ["nope"]}
        return {"cols": rng.sample(cols, rng.randint(1, len(cols)))}
    if name == "set_index":
        if invalid or not cols:
            return {"keys": ["nope"]}
        return {"keys": [rng.choice(cols)], "drop": rng.random() < 0.7, "append": rng.random() < 0.3}
    if name == "reset_index":
        return {"level": None, "drop": rng.random() < 0.5}
    return None


OPS = {
    "validate": op_validate, "validate_fault": op_validate_fault, "coerce_dtype": op_coerce_dtype, "to_yaml": op_to_yaml,
    "to_json": op_to_json, "to_script": op_to_script, "to_path": op_to_path, "yaml_roundtrip": op_yaml_roundtrip,
    "statistics": op_statistics, "strategy": op_strategy, "str_repr": op_str_repr, "compare": op_compare,
    "copy_ops": op_copy_ops, "pickle": op_pickle, "introspect": op_introspect, "call_check": op_call_check,
    "decorators": op_decorators, "model_ops": op_model_ops, "subclass_model": op_subclass_model, "infer_like_io": op_infer_like_io,
}
for _t in TRANSFORMING:
    OPS[_t] = _transform(_t)


# ---------------------------------------------------------------------------------------------
def history_tags(hist, upto=None):
    t = set()
    for s in hist["subjects"]:
        t.add(s["spec"]["backend"])
        t.add("kind=" + s["spec"]["kind"])
        cols = list(s["spec"].get("columns") or []) + ([s["spec"]["column"]] if s["spec"].get("column") else [])
        for c in cols:
            if c.get("regex"):
                t.add("regex")
            if c.get("dtype") == "datetime_tz_agnostic":
                t.add("datetime_tz_agnostic" if s["spec"]["backend"] == "pandas" else "polars_datetime_tz_agnostic")
            if c.get("dtype") == "simint":
                t.add("custom_dtype")
            for ch in c.get("checks") or []:
                if ch.get("opts", {}).get("name") in ("isin", "ge"):
                    t.add("custom_check_named_like_builtin")
        for ch in s["spec"].get("checks") or []:
            if ch.get("opts", {}).get("name") in ("isin", "ge"):
                t.add("custom_check_named_like_builtin")
        ix = s["spec"].get("index")
        if ix:
            t.add("multiindex" if "multi" in ix else "index")
            for lv in (ix["multi"] if "multi" in ix else [ix]):
                if lv.get("coerce"):
                    t.add("index_level_coerce")
                for ch in lv.get("checks") or []:
                    if ch.get("opts", {}).get("name") in ("isin", "ge"):
                        t.add("custom_check_named_like_builtin")
    return sorted(t)


def run_history(hist):
    if hist.get("ambient"):
        from pandera import config
        from checks import c06
        config.reset_config_context()
        with config.config_context(**c06.ambient_kwargs(hist["ambient"])):
            w = World(hist, reset_config=False)
            w.run()
        w.bump("probe.history_inside_callers_config_context")
        config.reset_config_context()
        return w
    w = World(hist)
    w.run()
    return w


def run_one(seed, tier, idx):
    rng = kernel.derive(seed, PROP, idx)
    kernel.reseed_ambient(rng)
    hist = gen_history(rng, idx, tier)
    w = run_history(hist)
    out, seen = [], set()
    for klass, detail, opi in w.violations:
        if klass in seen:
            continue
        seen.add(klass)
        payload = {"history": {"subjects": hist["subjects"], "ops": hist["ops"][: (opi + 1 if opi >= 0 else len(hist["ops"]))]}}
        if hist.get("ambient"):
            payload["history"]["ambient"] = hist["ambient"]
        out.append(Violation(PROP, klass, detail, payload, history_tags(hist)).to_json())
    w.log.add("violations", sorted(seen))
    multi = any(len(s.op_kinds) >= 2 for s in w.pool)
    key = kernel.digest_of([[e[1], e[3], e[4]] for e in w.log.events if isinstance(e[0], int)]) if multi else None
    sample = None
    if idx % 173 == 0:
        sample = {"subjects": [s.label for s in w.pool], "operations": [[e[1], e[2], e[4]] for e in w.log.events if isinstance(e[0], int)]}
    return {"run": idx, "digest": w.log.digest(), "key": key, "steps": w.stats.get("evaluations", 0), "stats": w.stats,
            "violations": out, "sample": sample}


def replay(payload):
    hist = copy.deepcopy(payload["history"])
    w = run_history(hist)
    return [Violation(PROP, k, d, payload, history_tags(hist)) for k, d, _ in w.violations]


def shrink_candidates(payload):
    hist = payload["history"]
    ops = hist["ops"]
    for i in range(len(ops) - 1, -1, -1):
        if len(ops) > 1:
            p = copy.deepcopy(payload)
            p["history"]["ops"].pop(i)
            yield p
    if hist.get("ambient"):
        p = copy.deepcopy(payload)
        del p["history"]["ambient"]
        yield p
    if len(hist["subjects"]) > 1:
        for i in range(len(hist["subjects"])):
            p = copy.deepcopy(payload)
            p["history"]["subjects"].pop(i)
            yield p
    # shrink subject specs with the C06 spec shrinker
    from checks import c06
    for si, s in enumerate(hist["subjects"]):
        fake = {"scenario": {"spec": s["spec"], "frame": s["probes"][0], "mode": {"lazy": False}, "kinds": [], "pairs_seed": 0}, "plan": {}}
        for cand in c06.shrink_candidates(fake):
            if cand["scenario"]["spec"] != s["spec"]:
                p = copy.deepcopy(payload)
                p["history"]["subjects"][si]["spec"] = cand["scenario"]["spec"]
                yield p
