"""C06 - errors use the documented channel; failures leave no trace (fault enumeration over callback invocations).

One run = one seeded scenario (schema spec, frame spec, call mode).  Phase 0 runs fault-free and counts the N
callback invocations; then *every* k in 1..N (sampled to 64 positions when N is larger) x each enabled fault
kind is executed on the same schema object, followed by a fault-free call that must reproduce the phase-0 outcome.
"""
from __future__ import annotations

import copy

from sim import faults, kernel, world
from sim.fingerprint import classify, config_fp, diff_paths, fp, generalise
from sim.kernel import Violation
from sim.outcome import in_documented_channel, run_call, canon_obj, innermost_pandera_frame, exc_name

PROP = "C06"
LEVEL = "fault_enumeration"
MAX_POS = 64


def plan(tier):
    return {"runs": 1600 if tier == "quick" else 40000, "timeout_s": 1500 if tier == "quick" else 6 * 3600}


def describe():
    return {
        "rule": ("one run = one seeded scenario (schema spec with >=1 simulator-owned user callback, frame spec, call mode); "
                 "phase 0 fault-free counts N callback invocations, then every k in 1..N (64 sampled positions incl. 1, N and every "
                 "site change when N>64) x each enabled fault kind is executed on the same schema object and followed by a "
                 "fault-free call; lazy scenarios add seeded fault pairs. evaluations = validate calls executed under an installed "
                 "fault plan in which the fault actually fired. A fired fault case is non-trivial; distinct = distinct "
                 "(backend, schema kind, call mode, callback role, fault kind, canonical outcome shape, position class) tuples."),
        "components": {"real": ["all of pandera (api, backends, engines, config)", "pandas", "numpy", "polars (thread pool pinned to 1)"],
                       "simulator_owned": ["user callbacks: check fn, groupby fn, parser fn, custom DataType.check/coerce/coerce_value (sim/world.py)",
                                           "fault plan and invocation counter (sim/faults.py)"],
                       "stubbed": []},
        "assumptions": ["scenario space is sampled (seeded); the fault positions of each scenario are enumerated",
                        "a fault scheduled at a position the call never reaches counts as not fired and checks nothing",
                        "parser / custom-dtype faults may propagate as the injected exception itself (the statement promises conversion only for checks)"],
    }


# ---------------------------------------------------------------------------------------------
def gen_scenario(rng, idx):
    trigger_free = (idx % 3 == 0)     # configurations in which the triggers of open known findings are absent
    allow = None
    if trigger_free:
        allow = {"index", "multiindex", "schema_dtype", "defaults", "strict", "filter", "ordered", "parsers", "groupby",
                 "coerce", "custom_dtype", "raise_warning", "optional", "unique", "nullable", "df_checks", "subsample", "add_missing"}
    # a third of the scenarios force the features that make validation rewrite data or override components (coercion, index
    # components), which the swarm's independent 35 % coins combine too rarely (own stream)
    force = ("coerce", "index", "multiindex") if kernel.derive(idx, "c06-force").random() < 0.33 else ()
    for _ in range(8):
        g = world.SpecGen(rng, want_callbacks=0.8, allow=allow, deny=("name_collision",), force=force)
        spec = g.schema()
        try:
            world.build_schema(spec)
        except Exception:  # noqa: BLE001 generator produced a schema pandera rejects at construction: not a validate scenario
            continue
        sites = world.callback_sites(spec)
        if len(sites) > 3 or any(c.get("dtype") == "simint" for c in _cols(spec)):
            break
    frame = g.frame_for(spec, conform=0.6)
    mode = {"lazy": rng.random() < 0.55, "inplace": rng.random() < 0.2}
    if spec["backend"] == "polars":
        mode["pl_lazy"] = rng.random() < 0.35
    if g.feat["subsample"] and spec["backend"] == "pandas":
        mode["head"] = rng.choice([None, 1, 2])
        mode["tail"] = rng.choice([None, 1])
    # polars head= / tail= stay out of the workloads: PolarsSchemaBackend.subsample de-duplicates with an unordered
    # `unique()`, so which rows a check sees first (and with n_failure_cases which failure cases are reported) varies from run
    # to run - the simulator could not replay what it reports (tried: one irreproducible class within the first 1600 scenarios)
    if _uses_drop(spec) and rng.random() < 0.85:
        mode["lazy"] = True
    kinds = ["exc_msg"] + rng.sample([k for k in faults.KINDS if k != "exc_msg"], 4)
    sc = {"spec": spec, "frame": frame, "mode": mode, "kinds": kinds, "pairs_seed": rng.getrandbits(32), "trigger_free": trigger_free}
    # ambient configuration: the caller may itself be inside a config_context whose options differ from the global ones; a
    # failing validate must put back *that* configuration, not the global one (drawn from its own stream)
    r2 = kernel.derive(sc["pairs_seed"], "ambient")
    if r2.random() < 0.35:
        mode["ctx"] = r2.choice(AMBIENT)
    # the same call made through the function decorators (they catch and re-raise validation errors with their own context)
    r3 = kernel.derive(sc["pairs_seed"], "via")
    if spec["backend"] == "pandas" and spec["kind"] in ("dfs", "series") and r3.random() < 0.2:
        mode["via"] = r3.choice(["check_input", "check_output"])
    return sc


AMBIENT = [{"cache_dataframe": True}, {"keep_cached_dataframe": True}, {"validation_depth": "SCHEMA_AND_DATA"},
           {"validation_depth": "SCHEMA_AND_DATA", "cache_dataframe": True, "keep_cached_dataframe": True}]


def ambient_kwargs(ctx):
    from pandera.config import ValidationDepth
    kw = dict(ctx)
    if kw.get("validation_depth"):
        kw["validation_depth"] = ValidationDepth[kw["validation_depth"]]
    return kw


def scenario_tags(sc):
    """Trigger features of a scenario: what a known finding names as the input that fails."""
    spec, fr, mode = sc["spec"], sc["frame"], sc["mode"]
    t = {spec["backend"], "kind=" + spec["kind"], "lazy" if mode["lazy"] else "eager"}
    if mode.get("pl_lazy"):
        t.add("pl_lazyframe")
    names = [c["name"] for c in fr["columns"]]
    if len(set(names)) != len(names):
        t.add("dup_column_labels")
    if fr["columns"] and not fr["columns"][0]["values"]:
        t.add("empty_frame")
    ixs = fr.get("index")
    if ixs:
        if "multi" in ixs:
            tuples = list(zip(*[lv["values"] for lv in ixs["multi"]]))
        else:
            tuples = list(ixs["values"])
        if len(set(map(str, tuples))) != len(tuples):
            t.add("dup_index_labels")
    cols = _cols(spec)
    if _uses_drop(spec):
        t.add("drop_invalid_rows")
    if any(c.get("drop_invalid_rows") for c in cols) and spec["kind"] in ("dfs", "model"):
        t.add("column_level_drop_invalid_rows")
    import re as _re
    for c in cols:
        if c.get("regex"):
            if not any(_re.match(c["name"], n) for n in names):
                t.add("regex_no_match")
            t.add("regex")
        elif c["name"] not in names and spec["kind"] != "series":
            t.add("schema_column_absent" + ("" if c.get("required", True) else "_optional"))
        if c.get("coerce"):
            t.add("coerce")
        if c.get("default") is not None:
            t.add("default")
        if c.get("dtype") is None:
            t.add("column_without_dtype")
        if c.get("dtype") == "simint":
            t.add("custom_dtype")
    if spec.get("coerce"):
        t.add("coerce")
    if spec.get("dtype"):
        t.add("schema_level_dtype")
    if spec.get("unique"):
        t.add("joint_unique")
        if any(u not in names for u in spec["unique"]):
            t.add("joint_unique_column_absent")
    ix = spec.get("index")
    if ix:
        t.add("multiindex" if "multi" in ix else "index")
    if spec.get("add_missing_columns"):
        t.add("add_missing_columns")
    if mode.get("head") or mode.get("tail"):
        t.add("subsample")
    if mode.get("via"):
        t.add("via=" + mode["via"])
    return sorted(t)


def _cols(spec):
    return list(spec.get("columns") or []) + ([spec["column"]] if spec.get("column") else [])


def _uses_drop(spec):
    return "drop_invalid_rows" in world.spec_features(spec)


def call_validate(subject, data, mode):
    kw = {"lazy": mode["lazy"], "inplace": mode.get("inplace", False)}
    for k in ("head", "tail", "sample", "random_state"):
        if mode.get(k) is not None:
            kw[k] = mode[k]
    via = mode.get("via")
    if via == "check_input":
        import pandera as pa

        @pa.check_input(subject, **kw)
        def consumer(obj):
            return obj
        return consumer(data)
    if via == "check_output":
        import pandera as pa

        @pa.check_output(subject, **kw)
        def producer(obj):
            return obj
        return producer(data)
    return subject.validate(data, **kw)


def positions(n, sites):
    if n <= MAX_POS:
        return list(range(1, n + 1))
    must = {1, n}
    for i in range(1, n):
        if sites[i] != sites[i - 1]:
            must.add(i + 1)
            must.add(i)
    rest = [k for k in range(1, n + 1) if k not in must]
    step = max(1, len(rest) // max(1, MAX_POS - len(must)))
    return sorted(must | set(rest[::step]))[: MAX_POS + len(must)]


# ---------------------------------------------------------------------------------------------
class Scenario:
    def __init__(self, sc):
        self.sc = sc
        self.spec = sc["spec"]
        self.mode = sc["mode"]
        self.subject = world.build_schema(self.spec)
        self.roles = world.callback_sites(self.spec)
        self.backend = self.spec["backend"]
        self.d0 = world.build_frame(sc["frame"], self.backend, self.spec["kind"], lazy=self.mode.get("pl_lazy", False))
        self.d0_canon = canon_obj(self.d0)
        self.fp0 = self.fingerprint()
        self.cfg0 = config_fp()
        self.stats = {}
        self.keys = set()
        self.inner = None
        cols = sc["frame"]["columns"]
        self.nrows = len(cols[0]["values"]) if cols else 0
        self.site_kind = {}
        _collect_site_kinds(self.spec, self.site_kind)

    def fingerprint(self):
        s = self.subject
        if isinstance(s, type):
            return fp(s.to_schema())
        return fp(s)

    def bump(self, k, n=1):
        self.stats[k] = self.stats.get(k, 0) + n

    def call(self, plan):
        st = faults.install(faults.FaultState(plan))
        d = world.copy_frame(self.d0)
        self.inner = None
        if self.mode.get("ctx"):
            from pandera.config import config_context
            with config_context(**ambient_kwargs(self.mode["ctx"])):
                inner0 = config_fp()
                out = run_call(lambda: call_validate(self.subject, d, self.mode))
                inner1 = config_fp()
            if inner0 != inner1:
                self.inner = (inner0, inner1)
        else:
            out = run_call(lambda: call_validate(self.subject, d, self.mode))
        faults.install(faults.FaultState())
        return out, st, d

    def trace_violations(self, d, after, tag):
        """No-trace oracle: schema, configuration and (without inplace) the caller's data are as before."""
        out = []
        f1 = self.fingerprint()
        if f1 != self.fp0:
            for what in classify(diff_paths(self.fp0, f1, limit=40)):
                out.append((f"trace|schema|{what}|{tag}", f"schema fingerprint changed at {diff_paths(self.fp0, f1)}"))
            self.restore_subject()
        if self.inner is not None:
            out.append((f"trace|config-inside-ambient-context|{','.join(sorted(generalise(p) for p in diff_paths(*self.inner)))}|{tag}",
                        f"inside the caller's own config_context the configuration was {self.inner[0]['context']} before validate and "
                        f"{self.inner[1]['context']} after it"))
        c1 = config_fp()
        if c1 != self.cfg0:
            out.append((f"trace|config|{','.join(sorted(generalise(p) for p in diff_paths(self.cfg0, c1)))}|{tag}",
                        f"process configuration changed: {self.cfg0} -> {c1}"))
            from pandera import config
            config.reset_config_context()
        if not self.mode.get("inplace"):
            if canon_obj(d) != self.d0_canon:
                out.append((f"trace|data|{self.backend}|{tag}", "caller's data changed although inplace=False"))
        return out

    def restore_subject(self):
        """After a detected schema mutation rebuild the subject so later cases stay meaningful."""
        self.subject = world.build_schema(self.spec)
        self.fp0 = self.fingerprint()


def _collect_site_kinds(o, out):
    if isinstance(o, dict):
        if "site" in o and "cb" in o:
            out[o["site"]] = o["cb"]
        for v in o.values():
            _collect_site_kinds(v, out)
    elif isinstance(o, list):
        for v in o:
            _collect_site_kinds(v, out)


def _chain_contains(exc, target):
    seen = set()
    cur = exc
    while cur is not None and id(cur) not in seen:
        if cur is target:
            return True
        seen.add(id(cur))
        cur = cur.__cause__ or cur.__context__
    return False


def _reported_errors(exc):
    from pandera import errors
    if isinstance(exc, errors.SchemaErrors):
        return list(exc.schema_errors)
    if isinstance(exc, errors.SchemaError):
        return [exc]
    return []


def judge_fault_case(scn: Scenario, out, st, lazy, out0):
    """Channel oracle for a run in which faults fired. Returns list of (class, detail)."""
    from pandera import errors
    res = []
    fired_objs = [f[3] for f in st.fired]
    roles = [scn.roles.get(f[2], "check") for f in st.fired]
    if any(f[1] in faults.BASE_EXC_KINDS for f in st.fired):
        return res          # BaseException: only the state-restoration oracle applies (third-party code may or may not convert it)
    e = out.exc if out.raised else None
    # a parser / custom-dtype fault may propagate as the injected exception object itself
    for f, role in zip(st.fired, roles):
        if role in ("parser", "dtype") and e is f[3]:
            return res
    if e is not None and not in_documented_channel(e, lazy):
        n, kind, site, _ = st.fired[0]
        res.append((f"leak|{'+'.join(sorted(set(roles)))}|{exc_name(e)}|{innermost_pandera_frame(e)}",
                    f"{kind} raised by {roles[0]} callback {site} (invocation {n}) escaped validate as {exc_name(e)}: {str(e)[:200]}"))
        return res
    for (n, kind, site, exc_obj), role in zip(st.fired, roles):
        if role not in ("check", "groupby"):
            continue
        if n in st.trial_calls:
            scn.bump("probe.elementwise_trial_call_on_empty_frame_swallowed_by_pandas")
            continue        # pandas' DataFrame.apply on an empty frame (no rows, or no columns left after strict='filter') makes a
            #                 trial call and discards its exception itself (detected from the call stack at the moment of the raise)
        if e is None:
            if kind in ("SchemaError", "SchemaErrors") and _uses_drop(scn.spec) and scn.backend == "pandas":
                continue    # a nested SchemaError carries row-level failure cases: reported as a failed check = rows dropped
            res.append((f"swallowed|{role}|{scn.backend}|{scn.spec['kind']}|drop={int(_uses_drop(scn.spec))}",
                        f"{kind} raised by {role} callback {site} (invocation {n}) but validate returned normally"))
            continue
        if isinstance(e, errors.SchemaDefinitionError) and any(f[1] == "SchemaDefinitionError" for f in st.fired):
            continue        # documented to be re-raised
        if not lazy and out0.raised:
            continue        # eager validation surfaces the first error only; another constraint already fails fault-free
        if kind in ("SchemaError", "SchemaErrors") and _uses_drop(scn.spec) and scn.backend == "pandas":
            continue        # nested SchemaError under drop_invalid_rows: its row-level failure cases are dropped, not reported
        reported = _reported_errors(e)
        if not any(site in world.site_of_check(getattr(se, "check", None), scn.subject) for se in reported):
            res.append((f"unattributed|{role}|{scn.backend}|{scn.spec['kind']}|lazy={int(lazy)}|drop={int(_uses_drop(scn.spec))}",
                        f"{kind} at {site}: errors reported {[(getattr(x.reason_code, 'name', None), str(x.check)[:60]) for x in reported]} name no failing check for that callback"))
    return res


def _shape(out):
    c = out.canon
    if "returned" in c:
        return "returned"
    if "errors" in c:
        return "SchemaErrors[" + ",".join(sorted({x["reason"] for x in c["errors"]})) + "]"
    if "error" in c:
        return "SchemaError[" + c["error"]["reason"] + "]"
    return c["raised"]


def run_scenario(sc, plans=None, want_sample=False):
    """Execute a scenario. plans=None -> enumerate; else the list of explicit fault plans (replay)."""
    violations = []      # (class, detail, plan)
    faults.install(faults.FaultState())
    from pandera import config
    config.reset_config_context()
    world.warm_registries()
    scn = Scenario(sc)
    lazy = scn.mode["lazy"]

    out0, st0, d = scn.call({})
    n_inv, sites = st0.n, list(st0.sites)
    scn.bump("scenarios")
    scn.bump("phase0." + ("returned" if not out0.raised else exc_name(out0.exc)))
    base_ok = True
    if out0.raised and not in_documented_channel(out0.exc, lazy):
        violations.append((f"leak0|{exc_name(out0.exc)}|{innermost_pandera_frame(out0.exc)}",
                           f"fault-free validate leaked {exc_name(out0.exc)}: {str(out0.exc)[:200]}", {}))
        base_ok = False
    tr = scn.trace_violations(d, out0, "fault-free-" + ("fail" if out0.raised else "pass"))
    for k, dt in tr:
        if out0.raised:        # a *failure* left a trace (fault-free success leaving a trace is C05's subject)
            violations.append((k, dt, {}))
        base_ok = False
        scn.bump("probe.phase0_trace")
    if base_ok:
        out0b, _, _ = scn.call({})
        if out0b.canon != out0.canon:
            base_ok = False
            scn.bump("probe.phase0_not_repeatable")
    sample = None
    if not base_ok or n_inv == 0:
        scn.bump("scenarios_without_enumeration")
        return violations, scn, sample, n_inv

    if plans is None:
        plans = []
        for k in positions(n_inv, sites):
            for kind in sc["kinds"]:
                plans.append({k: kind})
        if lazy and n_inv >= 2:
            prng = kernel.derive(sc["pairs_seed"], "pairs")
            for _ in range(min(6, n_inv)):
                k1, k2 = sorted(prng.sample(range(1, n_inv + 1), 2))
                plans.append({k1: prng.choice(sc["kinds"]), k2: prng.choice(sc["kinds"])})

    for plan_ in plans:
        plan_ = {int(k): v for k, v in plan_.items()}
        out, st, d = scn.call(plan_)
        scn.bump("calls_with_plan")
        if not st.fired:
            scn.bump("fault_not_reached")
            continue
        scn.bump("evaluations")
        for (_, kind, site, _) in st.fired:
            scn.bump("fault." + kind)
            scn.bump("faultrole." + scn.roles.get(site, "check"))
        if len(st.fired) > 1:
            scn.bump("probe.two_faults_fired_in_one_lazy_call")
        if lazy and out0.raised:
            scn.bump("probe.fault_in_lazy_call_that_also_has_data_errors")
        if scn.mode.get("ctx"):
            scn.bump("probe.fault_inside_callers_own_config_context")
        if scn.mode.get("via"):
            scn.bump("probe.fault_in_call_through_" + scn.mode["via"])
        n, kind, site, _ = st.fired[0]
        role = scn.roles.get(site, "check")
        posclass = "first" if n == 1 else ("last" if n == n_inv else "mid")
        scn.keys.add(kernel.digest_of([scn.backend, scn.spec["kind"], lazy, scn.mode.get("pl_lazy"), role, kind, _shape(out), posclass, len(st.fired)]))
        found = judge_fault_case(scn, out, st, lazy, out0)
        found += scn.trace_violations(d, out, "after-" + role + "-fault")
        # a subsequent fault-free call on the same objects gives the phase-0 outcome
        out_after, _, _ = scn.call({})
        if out_after.canon != out0.canon:
            found.append((f"trace|behaviour|{scn.backend}|{scn.spec['kind']}|after-{role}-fault",
                          f"fault-free call after the faulted call gives {_shape(out_after)} instead of {_shape(out0)}"))
            scn.restore_subject()
        for klass, detail in found:
            violations.append((klass, detail, plan_))
        if sample is None and want_sample:
            sample = {"schema_kind": scn.spec["kind"], "backend": scn.backend, "mode": scn.mode, "callback_invocations": n_inv,
                      "fault_plan": {str(k): v for k, v in plan_.items()}, "site": site, "role": role,
                      "outcome": _shape(out), "fault_free_outcome": _shape(out0)}
    return violations, scn, sample, n_inv


def run_one(seed, tier, idx):
    rng = kernel.derive(seed, PROP, idx)
    kernel.reseed_ambient(rng)
    sc = gen_scenario(rng, idx)
    if tier == "thorough":
        sc["kinds"] = list(faults.KINDS)
    vio, scn, sample, n_inv = run_scenario(sc, want_sample=(idx % 97 == 0))
    log = kernel.EventLog()
    out = []
    seen = set()
    for klass, detail, plan_ in vio:
        log.add(klass, sorted(plan_.items()))
        if klass in seen:
            continue
        seen.add(klass)
        payload = {"scenario": {k: sc[k] for k in ("spec", "frame", "mode", "kinds", "pairs_seed")}, "plan": {str(k): v for k, v in plan_.items()}}
        out.append(Violation(PROP, klass, detail, payload, scenario_tags(sc)).to_json())
    log.add("stats", sorted(scn.stats.items()))
    log.add("keys", sorted(scn.keys))
    return {"run": idx, "digest": log.digest(), "keys": sorted(scn.keys), "steps": scn.stats.get("calls_with_plan", 0) + 2,
            "stats": scn.stats, "violations": out, "sample": sample}


def replay(payload):
    sc = copy.deepcopy(payload["scenario"])
    plan_ = payload.get("plan") or {}
    plans = [plan_] if plan_ else []
    vio, _, _, _ = run_scenario(sc, plans=plans)
    return [Violation(PROP, k, d, payload, scenario_tags(sc)) for k, d, _ in vio]


def shrink_candidates(payload):
    """Smaller payloads: drop columns / checks / parsers / index / rows / options, one at a time."""
    sc = payload["scenario"]
    spec = sc["spec"]

    def emit(new_spec=None, new_frame=None, new_mode=None):
        p = copy.deepcopy(payload)
        if new_spec is not None:
            p["scenario"]["spec"] = new_spec
        if new_frame is not None:
            p["scenario"]["frame"] = new_frame
        if new_mode is not None:
            p["scenario"]["mode"] = new_mode
        return p

    # fault plan cannot be index-shifted safely when callbacks are removed: candidates that remove callbacks are
    # still offered; replay decides (the fault may land on another invocation of the same role, same class => kept)
    if spec.get("columns"):
        for i in range(len(spec["columns"])):
            if len(spec["columns"]) > 1:
                s = copy.deepcopy(spec)
                name = s["columns"].pop(i)["name"]
                if s.get("unique"):
                    s["unique"] = [u for u in s["unique"] if u != name] or None
                yield emit(new_spec=s)
    for holder_path in _check_holders(spec):
        holder = _get(spec, holder_path)
        for key in ("checks", "parsers"):
            for i in range(len(holder.get(key) or [])):
                s = copy.deepcopy(spec)
                _get(s, holder_path)[key].pop(i)
                yield emit(new_spec=s)
    for key, val in (("index", None), ("unique", None), ("strict", False), ("ordered", False), ("coerce", False),
                     ("dtype", None), ("add_missing_columns", False), ("name", None)):
        if spec.get(key) not in (val, None) or (key == "index" and spec.get("index")):
            s = copy.deepcopy(spec)
            s[key] = val
            yield emit(new_spec=s)
    for holder_path in _check_holders(spec):
        holder = _get(spec, holder_path)
        for key, val in (("nullable", False), ("unique", False), ("coerce", False), ("required", True), ("default", None)):
            if key in holder and holder[key] != val:
                s = copy.deepcopy(spec)
                _get(s, holder_path)[key] = val
                yield emit(new_spec=s)
    fr = sc["frame"]
    n = len(fr["columns"][0]["values"]) if fr["columns"] else 0
    for i in range(n):
        f = copy.deepcopy(fr)
        for c in f["columns"]:
            c["values"].pop(i)
        if f.get("index"):
            for lv in (f["index"]["multi"] if "multi" in f["index"] else [f["index"]]):
                lv["values"].pop(i)
        yield emit(new_frame=f)
    for i in range(len(fr["columns"])):
        if len(fr["columns"]) > 1:
            f = copy.deepcopy(fr)
            f["columns"].pop(i)
            yield emit(new_frame=f)
    for key in ("head", "tail", "inplace", "ctx", "via"):
        if sc["mode"].get(key):
            m = dict(sc["mode"])
            m[key] = None if key != "inplace" else False
            yield emit(new_mode=m)
    # fault at invocation 1 is the simplest position
    plan_ = payload.get("plan") or {}
    if len(plan_) > 1:
        for k in plan_:
            p = copy.deepcopy(payload)
            del p["plan"][k]
            yield p
    for k, v in plan_.items():
        if int(k) > 1:
            p = copy.deepcopy(payload)
            del p["plan"][k]
            p["plan"]["1"] = v
            yield p
        if v != "exc_msg":
            p = copy.deepcopy(payload)
            p["plan"][k] = "exc_msg"
            yield p


def _check_holders(spec):
    paths = []
    for i, _ in enumerate(spec.get("columns") or []):
        paths.append(("columns", i))
    if spec.get("column"):
        paths.append(("column",))
    ix = spec.get("index")
    if ix:
        if "multi" in ix:
            for i, _ in enumerate(ix["multi"]):
                paths.append(("index", "multi", i))
        else:
            paths.append(("index",))
    paths.append(())
    return paths


def _get(spec, path):
    cur = spec
    for p in path:
        cur = cur[p]
    return cur
