#!/venv/bin/python
"""Run the repository's pinned baseline (guard off - there are no source hooks) and compare with BASELINE.json:
every stable_pass id must still pass.  Usage: tools/baseline_compare.py [junit.xml]  (runs the suite when no file given)"""
import json
import subprocess
import sys
import xml.etree.ElementTree as ET

b = json.load(open("/root/.vp/BASELINE.json"))
if len(sys.argv) > 1:
    path = sys.argv[1]
else:
    path = "/tmp/verif_baseline.junit.xml"
    cmd = b["cmd"].replace("<file>", path)
    subprocess.run(cmd, shell=True, stdout=subprocess.DEVNULL, stderr=subprocess.DEVNULL)
root = ET.parse(path).getroot()
status = {}
for tc in root.iter("testcase"):
    tid = f"{tc.get('classname')}::{tc.get('name')}"
    bad = any(ch.tag in ("failure", "error", "skipped") for ch in tc)
    status[tid] = "fail" if bad else "pass"
stable = b["stable_pass"]
missing = [t for t in stable if status.get(t) != "pass"]
print(f"stable_pass={len(stable)} still_passing={len(stable) - len(missing)} not_passing={len(missing)} total_cases={len(status)}")
for t in missing[:50]:
    print("  NOT PASSING:", t, status.get(t))
sys.exit(1 if missing else 0)
