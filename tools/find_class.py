#!/venv/bin/python
"""Investigation helper: run run_one over a range of run indices (in-process, sequentially) and print the first violation
whose class matches a regex, with its payload.   usage: PYTHONHASHSEED=0 tools/find_class.py C06 'leak0.AssertionError.*' [--seed N] [--lo A --hi B]"""
import argparse, json, os, re, sys, warnings
sys.path.insert(0, os.path.dirname(os.path.dirname(os.path.abspath(__file__))))
from sim import kernel
kernel.use_repo()
warnings.filterwarnings("ignore")
ap = argparse.ArgumentParser()
ap.add_argument("prop"); ap.add_argument("regex"); ap.add_argument("--seed", type=int, default=0)
ap.add_argument("--lo", type=int, default=0); ap.add_argument("--hi", type=int, default=2000); ap.add_argument("--tier", default="quick")
a = ap.parse_args()
from sim import driver
mod = driver.load(a.prop)
for idx in range(a.lo, a.hi):
    rec = mod.run_one(a.seed, a.tier, idx)
    for v in rec["violations"]:
        if re.search(a.regex, v["class"]):
            print("run", idx, v["class"]); print(v["detail"]); print(json.dumps(v["payload"])); print("tags", v.get("tags"))
            sys.exit(0)
print("not found")
