#!/bin/bash
# Seed sweep (not a registered check): runs ./check <prop> for VERIF_SEED in [lo,hi] and prints every new violation with its
# replay payload inline.  Evidence goes to a scratch directory.   usage: tools/sweep.sh <prop> <lo> <hi> [quick|thorough]
cd "$(dirname "$0")/.." || exit 2
prop="$1"; lo="$2"; hi="$3"; tier="${4:-quick}"
export VERIF_EVIDENCE_DIR="$PWD/.work/evidence-sweep"
for s in $(seq "$lo" "$hi"); do
  out="$(./check "$prop" --tier "$tier" --seed "$s" 2>&1)"; rc=$?
  echo "### $prop seed=$s rc=$rc $(echo "$out" | tail -1)"
  echo "$out" | grep -E '^(VIOLATION|  class=|  detail=|HARNESS)' | cut -c1-600
  for f in $(echo "$out" | grep '^VIOLATION' | sed 's/.*replay=//'); do echo "PAYLOAD $f $(jq -c '{c:.violation_class,tags:.tags,p:.payload}' "$f" | cut -c1-6000)"; done
done
