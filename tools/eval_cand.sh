#!/bin/bash
# Evaluate one candidate breaking change: (a) its demonstration passes on a clean scratch worktree and fails with the patch,
# (b) the named checks against the patched scratch worktree.  usage: tools/eval_cand.sh <dir with patch.diff demo.py> [--seed N] C05 ...
set -u
dir="$(readlink -f "$1")"; shift
seed=0
if [[ "${1:-}" == --seed ]]; then seed="$2"; shift 2; fi
name="$(basename "$dir")"
wt="/tmp/evalc/$name"
mkdir -p /tmp/evalc
git -C /repo worktree remove --force "$wt" >/dev/null 2>&1
git -C /repo worktree add --detach "$wt" HEAD >/dev/null 2>&1 || { echo "cannot create worktree"; exit 2; }
trap 'git -C /repo worktree remove --force "$wt" >/dev/null 2>&1' EXIT
mkdir -p "$wt/_out/m"; cp "$dir/demo.py" "$wt/_out/m/demo.py"
( cd "$wt" && PYTHONPATH="$wt" timeout 600 /venv/bin/python _out/m/demo.py >/tmp/evalc/$name.clean.out 2>&1 ); rc_clean=$?
git -C "$wt" apply "$dir/patch.diff" || { echo "patch does not apply"; exit 2; }
( cd "$wt" && PYTHONPATH="$wt" timeout 600 /venv/bin/python _out/m/demo.py >/tmp/evalc/$name.patched.out 2>&1 ); rc_patched=$?
echo "== $name demo: clean rc=$rc_clean ($(grep -v conda /tmp/evalc/$name.clean.out | tail -1 | cut -c1-120)) patched rc=$rc_patched ($(grep -v conda /tmp/evalc/$name.patched.out | tail -1 | cut -c1-200))"
cd "$(dirname "$0")/.."
for c in "$@"; do
  out="$(VERIF_REPO="$wt" VERIF_WORKERS="${VERIF_WORKERS:-16}" ./check "$c" --tier "${TIER:-quick}" --seed "$seed" 2>&1)"; rc=$?
  echo "== $name $c seed=$seed rc=$rc $(echo "$out" | grep -c '^VIOLATION') violation line(s)"
  echo "$out" | grep -A2 '^VIOLATION' | cut -c1-400 | head -24
  echo "$out" | grep -E 'HARNESS' | head -5 | cut -c1-600
  echo "$out" | tail -1
done
