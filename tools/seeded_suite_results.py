#!/venv/bin/python
"""Copies the result of the full pinned-suite run made for each seeded change (session helper output
<dir>/<cand>/suite_confirm.txt) into seeded/<id>/meta.json["existing_suite"].  usage: tools/seeded_suite_results.py <dir> [<dir> ...]"""
import glob, json, os, re, sys
root = os.path.dirname(os.path.dirname(os.path.abspath(__file__)))
n = 0
for d in sys.argv[1:]:
    for f in glob.glob(os.path.join(d, "*", "suite_confirm.txt")):
        cand = os.path.basename(os.path.dirname(f))
        txt = open(f).read()
        m = re.search(r"stable_pass=(\d+) not_passing=(\d+) .*?NEWLY_BROKEN=(\d+)", txt)
        if not m:
            continue
        metas = glob.glob(os.path.join(root, "seeded", f"*-{cand}", "meta.json"))
        if not metas:
            continue
        meta = json.load(open(metas[0]))
        meta["existing_suite"] = (f"full pinned suite with the patch applied (scratch worktree): all {m.group(1)} BASELINE stable_pass ids compared, "
                                  f"{m.group(2)} not passing in this shell, all of them members of the run-to-run flaky families that also fail on the unchanged "
                                  f"tree here (pyspark.pandas test_nullable[...], strategies index_strategy float16 xfail id, test_is_decorated_classmethod); "
                                  f"NEWLY_BROKEN={m.group(3)}")
        json.dump(meta, open(metas[0], "w"), indent=1)
        n += 1
print("updated", n)
