#!/bin/bash
# Runs every kept breaking change under seeded/ against the check of the property it breaks (scratch worktree + VERIF_REPO,
# /repo itself is never touched) and prints one line per change.  usage: tools/seeded_check.sh [--seed N] [id ...]
cd "$(dirname "$0")/.." || exit 2
seed=0
if [[ "${1:-}" == --seed ]]; then seed="$2"; shift 2; fi
ids=("$@"); [[ ${#ids[@]} -eq 0 ]] && ids=($(ls seeded | grep -v README))
for id in "${ids[@]}"; do
  d="seeded/$id"; [[ -f "$d/patch.diff" ]] || continue
  prop="$(jq -r .property "$d/meta.json")"
  out="$(tools/sens.sh "$d/patch.diff" --seed "$seed" "$prop" 2>&1)"
  rc="$(echo "$out" | grep -o "rc=[0-9]*" | head -1)"
  classes="$(echo "$out" | grep '^  class=' | sed 's/^  class=//; s/ (not minimised.*//' | head -3 | tr '\n' ';')"
  echo "$id property=$prop seed=$seed $rc classes: $classes"
done
