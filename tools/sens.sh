#!/bin/bash
# Sensitivity run: apply a patch to a scratch worktree of /repo (outside /repo and /verif), run the named checks against it
# through VERIF_REPO, print exit codes and VIOLATION lines, remove the worktree.  Evidence files are not touched.
# usage: tools/sens.sh <patch.diff> [--tier quick|thorough] [--seed N] C05 C06 ...
set -u
patch="$(readlink -f "$1")"; shift
tier=quick; seed=0
while [[ "${1:-}" == --* ]]; do case "$1" in --tier) tier="$2"; shift 2;; --seed) seed="$2"; shift 2;; *) echo "bad option $1"; exit 2;; esac; done
name="$(echo "$patch" | md5sum | cut -c1-8)"
wt="/tmp/sens/$name"
mkdir -p /tmp/sens
git -C /repo worktree remove --force "$wt" >/dev/null 2>&1
git -C /repo worktree add --detach "$wt" HEAD >/dev/null 2>&1 || { echo "cannot create worktree"; exit 2; }
trap 'git -C /repo worktree remove --force "$wt" >/dev/null 2>&1' EXIT
git -C "$wt" apply "$patch" || { echo "patch does not apply"; exit 2; }
cd "$(dirname "$0")/.."
for c in "$@"; do
  out="$(VERIF_REPO="$wt" VERIF_WORKERS="${VERIF_WORKERS:-16}" ./check "$c" --tier "$tier" --seed "$seed" 2>&1)"; rc=$?
  echo "== $c rc=$rc $(echo "$out" | grep -c '^VIOLATION') violation(s)"
  echo "$out" | grep -A2 '^VIOLATION' | cut -c1-400
  echo "$out" | grep -E 'HARNESS' | head -5 | cut -c1-400
  echo "$out" | tail -1
done
