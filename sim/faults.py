"""Callback seam: every simulator-supplied user callback starts with fault_point(site).

The fault plan {n: kind} is the replay artefact: "raise <kind> at the n-th callback invocation of this call".
A fault counts as *fired* only when it was actually raised.
"""
from __future__ import annotations

import threading


class InjectedFault(Exception):
    """The exception a failing user callback raises."""


KINDS = [
    "exc_msg",          # InjectedFault("injected fault")
    "exc_noargs",       # InjectedFault()               (handlers format err.args[0])
    "exc_nonstr",       # InjectedFault(12345)
    "KeyError",
    "TypeError",
    "AttributeError",
    "ValueError",
    "IndexError",
    "UnboundLocalError",
    "NotImplementedError",
    "SchemaError",      # user-raised pandera SchemaError
    "SchemaErrors",     # a nested lazy validation failing inside the callback
    "SchemaDefinitionError",
    "KeyboardInterrupt",
]
# kinds after which only state restoration is required (BaseException propagates by design)
BASE_EXC_KINDS = {"KeyboardInterrupt"}


def make_exception(kind):
    if kind == "exc_msg":
        return InjectedFault("injected fault")
    if kind == "exc_noargs":
        return InjectedFault()
    if kind == "exc_nonstr":
        return InjectedFault(12345)
    if kind == "KeyError":
        return KeyError("injected_key")
    if kind == "TypeError":
        return TypeError("injected type error")
    if kind == "AttributeError":
        return AttributeError("injected attribute error")
    if kind == "ValueError":
        return ValueError("injected value error")
    if kind == "IndexError":
        return IndexError("injected index error")
    if kind == "UnboundLocalError":
        return UnboundLocalError("injected unbound local")
    if kind == "NotImplementedError":
        return NotImplementedError("injected not implemented")
    if kind == "KeyboardInterrupt":
        return KeyboardInterrupt()
    from pandera import errors

    if kind == "SchemaDefinitionError":
        return errors.SchemaDefinitionError("injected schema definition error")
    if kind in ("SchemaError", "SchemaErrors"):
        # what a callback that validates a nested object with pandera raises when that nested validation fails
        import pandas as pd
        import pandera as pa

        try:
            pa.SeriesSchema(int, pa.Check.ge(0), name="zz_nested").validate(
                pd.Series([-1, -2], name="zz_nested"), lazy=(kind == "SchemaErrors"))
        except (errors.SchemaErrors, errors.SchemaError) as e:
            return e
        raise RuntimeError("nested schema error could not be produced")
    raise ValueError(kind)


class FaultState:
    def __init__(self, plan=None, record_sites=True):
        self.plan = {int(k): v for k, v in (plan or {}).items()}
        self.n = 0
        self.sites = []          # site of every invocation, in order
        self.fired = []          # (n, kind, site, exception object)
        self.trial_calls = set() # invocation numbers raised inside pandas' trial call on an empty frame (pandas discards those)
        self.record_sites = record_sites


_GLOBAL = FaultState()
_tls = threading.local()


def install(state: FaultState, thread_local=False):
    """Install the fault plan for the next call (process-wide, or for the current sim thread)."""
    global _GLOBAL
    if thread_local:
        _tls.state = state
    else:
        _GLOBAL = state
    return state


def clear_thread_local():
    if hasattr(_tls, "state"):
        del _tls.state


def current() -> FaultState:
    return getattr(_tls, "state", None) or _GLOBAL


def fault_point(site):
    st = current()
    st.n += 1
    if st.record_sites:
        st.sites.append(site)
    kind = st.plan.get(st.n)
    if kind is not None:
        exc = make_exception(kind)
        st.fired.append((st.n, kind, site, exc))
        if _inside_pandas_trial_call():
            st.trial_calls.add(st.n)
        raise exc


def _inside_pandas_trial_call():
    """DataFrame.apply / Series.apply on an empty object calls the function once 'to see what it returns' and discards any
    exception it raises (pandas.core.apply.FrameApply.apply_empty_result): such an exception never reaches pandera."""
    import sys
    f = sys._getframe(2)
    depth = 0
    while f is not None and depth < 40:
        if f.f_code.co_name == "apply_empty_result":
            return True
        f = f.f_back
        depth += 1
    return False
