"""Simulation kernel: one integer decides everything.

* derive(seed, *labels) -> independent random.Random per (property, run index, purpose)
* EventLog          -> ordered event list + SHA-256 digest (the determinism witness)
* Violation         -> (property, class key, detail, replay payload)
* exit protocol     -> 0 held / 1 VIOLATION / 2 harness error
Nothing here reads a clock or draws from a PRNG on a logging path.
"""
from __future__ import annotations

import hashlib
import json
import os
import random
import sys

VERIF_DIR = os.path.dirname(os.path.dirname(os.path.abspath(__file__)))
REPO = os.environ.get("VERIF_REPO", "/repo")
WORK = os.path.join(VERIF_DIR, ".work")
PY = "/venv/bin/python"

EXIT_OK, EXIT_VIOLATION, EXIT_HARNESS = 0, 1, 2


class HarnessError(Exception):
    """Something is wrong with the machinery, never with pandera."""


def use_repo():
    """Put the working tree under test first on sys.path (checks always run /repo as it is now)."""
    if sys.path[0] != REPO:
        if REPO in sys.path:
            sys.path.remove(REPO)
        sys.path.insert(0, REPO)


def seed_from_env(default=0):
    try:
        return int(os.environ.get("VERIF_SEED", default))
    except ValueError:
        return default


def derive_int(seed, *labels):
    h = hashlib.sha256(("|".join([str(seed)] + [str(x) for x in labels])).encode()).digest()
    return int.from_bytes(h[:8], "big")


def derive(seed, *labels):
    """Independent PRNG stream; worker count and run order never influence what run i does."""
    return random.Random(derive_int(seed, *labels))


def jdump(obj):
    return json.dumps(obj, sort_keys=True, default=_json_default, separators=(",", ":"))


def _json_default(o):
    return repr(o)


def digest_of(obj):
    return hashlib.sha256(jdump(obj).encode()).hexdigest()[:16]


class EventLog:
    """Append-only event list with a running digest."""

    def __init__(self):
        self.events = []
        self._h = hashlib.sha256()

    def add(self, *event):
        self.events.append(event)
        self._h.update(jdump(event).encode())
        self._h.update(b"\n")

    def digest(self):
        return self._h.hexdigest()[:16]


class Violation:
    def __init__(self, prop, klass, detail, payload, tags=()):
        self.tags = sorted(tags)    # trigger features of the scenario (known findings may require some of them)
        self.prop = prop
        self.klass = klass          # violation class key: "<oracle>|<location>|..." (used for known-finding match and minimisation)
        self.detail = detail        # free text for humans
        self.payload = payload      # JSON-able replay payload (scenario + decisions)

    def to_json(self):
        return {"property": self.prop, "class": self.klass, "detail": self.detail, "payload": self.payload, "tags": self.tags}

    @staticmethod
    def from_json(d):
        return Violation(d["property"], d["class"], d["detail"], d["payload"], d.get("tags", ()))


def write_replay(prop, klass, detail, payload, seed, extra=None):
    d = os.path.join(VERIF_DIR, "replays", prop)
    os.makedirs(d, exist_ok=True)
    body = {"property": prop, "violation_class": klass, "detail": detail, "seed": seed, "payload": payload}
    if extra:
        body.update(extra)
    name = digest_of([prop, klass, payload]) + ".json"
    path = os.path.join(d, name)
    with open(path, "w") as f:
        json.dump(body, f, indent=1, sort_keys=True, default=_json_default)
    return path


def reseed_ambient(rng):
    """Ambient entropy (numpy global RNG, `random`) is seeded from the run stream before each run."""
    import numpy as np

    random.seed(rng.getrandbits(32))
    np.random.seed(rng.getrandbits(32))
