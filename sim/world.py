"""Scenario = JSON.  Generators produce plain JSON specs of schemas and frames; builders turn a spec into real
pandera / pandas / polars objects.  Nothing in a spec refers to object identity, addresses or wall-clock.

Every user callable placed in a generated schema comes from the fixed library below and begins with
`fault_point(site)` (sim/faults.py).
"""
from __future__ import annotations

import copy
import random

import numpy as np
import pandas as pd
import polars as pl

import pandera as pa
import pandera.polars as pap
from pandera import dtypes as pa_dtypes
from pandera.api.parsers import Parser
from pandera.engines import pandas_engine

from .faults import fault_point

DTYPES = ["int64", "float64", "str", "bool", "datetime64[ns]"]
PL_DTYPES = {"int64": pl.Int64, "float64": pl.Float64, "str": pl.Utf8, "bool": pl.Boolean, "datetime64[ns]": pl.Datetime("ns")}


# ---------------------------------------------------------------------------------------------
# custom DataType with fault points in check / coerce / coerce_value (pandas engine)
# ---------------------------------------------------------------------------------------------
@pandas_engine.Engine.register_dtype
@pa_dtypes.immutable
class SimInt(pandas_engine.INT64):
    """A user-defined data type whose methods are simulator-owned fault points."""

    def check(self, pandera_dtype, data_container=None):
        fault_point("dtype.check")
        return super().check(pandas_engine.Engine.dtype("Int64") if isinstance(pandera_dtype, SimInt) else pandera_dtype,
                             data_container)

    def coerce(self, data_container):
        fault_point("dtype.coerce")
        return super().coerce(data_container)

    def coerce_value(self, value):
        fault_point("dtype.coerce_value")
        return super().coerce_value(value)

    def __str__(self):
        return "SimInt"


# ---------------------------------------------------------------------------------------------
# a check registered through pandera.extensions: usable by name in a DataFrameModel's Config ("extras")
# ---------------------------------------------------------------------------------------------
from pandera import extensions as _extensions  # noqa: E402

if not hasattr(pa.Check, "sim_min_rows"):
    @_extensions.register_check_method(statistics=["min_rows"])
    def sim_min_rows(pandas_obj, *, min_rows):
        return len(pandas_obj) >= min_rows


# ---------------------------------------------------------------------------------------------
# callback library
# ---------------------------------------------------------------------------------------------
def _tag(fn, kind, site):
    fn._verif_id = (kind, site)
    fn.__name__ = f"{kind}__{site}"
    fn.__qualname__ = fn.__name__
    return fn


def make_check_fn(kind, site):
    """pandas check functions"""
    if kind == "vec_ge0":          # series -> bool series
        def fn(s):
            fault_point(site)
            return s >= 0
    elif kind == "vec_notnull":    # series -> bool series, any dtype
        def fn(s):
            fault_point(site)
            return s.notna()
    elif kind == "vec_warns":      # a check that emits a RuntimeWarning every time (numpy: log of zero) and passes
        def fn(s):
            fault_point(site)
            import warnings as _w
            _w.warn("numerical trouble in a user check", RuntimeWarning)
            return s.notna() | s.isna()
    elif kind == "vec_scalar":     # series -> scalar bool
        def fn(s):
            fault_point(site)
            return len(s) >= 0
    elif kind == "vec_false_scalar":
        def fn(s):
            fault_point(site)
            return len(s) < 0
    elif kind == "elem_lt100":     # element-wise
        def fn(x):
            fault_point(site)
            return x < 100
    elif kind == "elem_true":
        def fn(x):
            fault_point(site)
            return True
    elif kind == "df_rowsum":      # dataframe -> bool series
        def fn(df):
            fault_point(site)
            return pd.Series(True, index=df.index)
    elif kind == "df_firstcol_nonneg":
        def fn(df):
            fault_point(site)
            c = df.select_dtypes("number")
            if c.shape[1] == 0:
                return True
            return c.iloc[:, 0].fillna(0) >= 0
    elif kind == "df_scalar":
        def fn(df):
            fault_point(site)
            return df.shape[1] >= 0
    elif kind == "df_false_scalar":
        def fn(df):
            fault_point(site)
            return df.shape[1] < 0
    elif kind == "df_elem_row":    # element-wise on a dataframe: row -> bool
        def fn(row):
            fault_point(site)
            return True
    elif kind == "grp_all":        # groupby check: dict of groups -> bool
        def fn(groups):
            fault_point(site)
            return all(len(v) >= 0 for v in groups.values())
    else:
        raise ValueError(kind)
    return _tag(fn, kind, site)


def make_groupby_fn(site, col):
    def fn(df):
        fault_point(site)
        return df.groupby(col)
    return _tag(fn, "groupby_fn", site)


def make_parser_fn(kind, site):
    if kind == "parse_ident":
        def fn(x):
            fault_point(site)
            return x
    elif kind == "parse_abs":
        def fn(x):
            fault_point(site)
            try:
                return x.abs()
            except Exception:  # noqa: BLE001 non-numeric: identity
                return x
    elif kind == "parse_elem_ident":
        def fn(x):
            fault_point(site)
            return x
    elif kind == "dfparse_drop_first":       # dataframe-level parser that changes the *set of columns*
        def fn(df):
            fault_point(site)
            return df.drop(columns=[df.columns[0]]) if df.shape[1] else df
    elif kind == "dfparse_rename_first":
        def fn(df):
            fault_point(site)
            return df.rename(columns={df.columns[0]: "renamed_by_parser"}) if df.shape[1] else df
    else:
        raise ValueError(kind)
    return _tag(fn, kind, site)


def make_pl_check_fn(kind, site):
    """polars check functions (receive PolarsData)"""
    if kind == "pl_ge0":
        def fn(data):
            fault_point(site)
            return data.lazyframe.select(pl.col(data.key).ge(0))
    elif kind == "pl_notnull":
        def fn(data):
            fault_point(site)
            return data.lazyframe.select(pl.col(data.key).is_not_null())
    elif kind == "pl_scalar":
        def fn(data):
            fault_point(site)
            return data.lazyframe.select(pl.col(data.key).is_not_null().all() | pl.lit(True))
    elif kind == "pl_elem_true":       # element-wise UDF
        def fn(x):
            fault_point(site)
            return True
    elif kind == "pl_df_true":         # dataframe-level: one boolean column
        def fn(data):
            fault_point(site)
            return data.lazyframe.select(pl.lit(True).alias("ok"))
    elif kind == "pl_df_firstcol":
        def fn(data):
            fault_point(site)
            return data.lazyframe.select(pl.first().is_not_null())
    elif kind == "pl_df_false_scalar":
        def fn(data):
            fault_point(site)
            return data.lazyframe.select(pl.lit(False).alias("ok")).head(1)
    else:
        raise ValueError(kind)
    return _tag(fn, kind, site)


COL_CB = {  # callback kinds usable on a pandas column, by dtype family
    "num": ["vec_ge0", "vec_notnull", "vec_scalar", "elem_lt100", "elem_true", "vec_false_scalar", "vec_warns"],
    "any": ["vec_notnull", "vec_scalar", "elem_true", "vec_false_scalar", "vec_warns"],
}
DF_CB = ["df_rowsum", "df_firstcol_nonneg", "df_scalar", "df_elem_row", "df_false_scalar"]
PL_COL_CB = {"num": ["pl_ge0", "pl_notnull", "pl_scalar", "pl_elem_true"], "any": ["pl_notnull", "pl_scalar", "pl_elem_true"]}
PL_DF_CB = ["pl_df_true", "pl_df_firstcol", "pl_df_false_scalar"]
ELEMENTWISE = {"elem_lt100", "elem_true", "df_elem_row", "pl_elem_true", "parse_elem_ident"}


def _family(dtype):
    return "num" if dtype in ("int64", "float64", "simint") else "any"


# ---------------------------------------------------------------------------------------------
# generators
# ---------------------------------------------------------------------------------------------
class SpecGen:
    """Generates schema and frame specs from one PRNG stream."""

    def __init__(self, rng, want_callbacks=0.5, backend=None, allow=None, deny=(), force=()):
        self.rng = rng
        self.want_callbacks = want_callbacks
        self.backend = backend
        self.site_no = 0
        # swarm knobs: features a run may enable; callers may force some off
        feats = ["regex", "index", "multiindex", "schema_dtype", "defaults", "add_missing", "strict", "filter",
                 "ordered", "joint_unique", "drop_invalid_rows", "parsers", "groupby", "coerce", "custom_dtype",
                 "raise_warning", "optional", "unique", "nullable", "df_checks", "subsample", "name_collision"]
        self.feat = {f: (rng.random() < 0.35) for f in feats}
        if allow is not None:
            for f in feats:
                if f not in allow:
                    self.feat[f] = False
        for f in deny:
            self.feat[f] = False
        # features a caller wants to see often (e.g. everything that involves a temporary override when a schema is shared);
        # drawn from a stream of its own so that the other draws are the same with and without `force`
        if force:
            r2 = random.Random(rng.getrandbits(32))
            for f in force:
                if f not in deny and r2.random() < 0.6:
                    self.feat[f] = True
        self.p_boost = 2.0 if force else 1.0

    def site(self, prefix):
        self.site_no += 1
        return f"{prefix}{self.site_no}"

    def opts(self):
        r = self.rng
        o = {}
        if r.random() < 0.2:
            o["ignore_na"] = False
        if self.feat["raise_warning"] and r.random() < 0.15:
            o["raise_warning"] = True
        p_nfc = 0.15 * getattr(self, "p_boost", 1.0)
        if getattr(self, "p_boost", 1.0) > 1.0 and self.feat.get("drop_invalid_rows"):
            p_nfc = 0.5         # dropping invalid rows consults the reported failure cases: the two options interact
        if r.random() < p_nfc:
            o["n_failure_cases"] = r.choice([1, 2, 0])      # 0: "report no failure cases" (an error with an empty table)
        return o

    def builtin_check(self, dtype):
        r = self.rng
        if dtype in ("int64", "float64", "simint"):
            c = r.choice([
                {"name": "ge", "kw": {"min_value": r.choice([-5, 0, 1])}},
                {"name": "gt", "kw": {"min_value": -10}},
                {"name": "le", "kw": {"max_value": r.choice([5, 50, 100])}},
                {"name": "lt", "kw": {"max_value": 1000}},
                {"name": "in_range", "kw": {"min_value": -3, "max_value": r.choice([3, 30])}},
                {"name": "isin", "kw": {"allowed_values": [0, 1, 2, 3, 4, 5]}},
                {"name": "notin", "kw": {"forbidden_values": [7, 13]}},
                {"name": "ne", "kw": {"value": 99}},
            ])
        elif dtype == "str":
            c = r.choice([
                {"name": "str_length", "kw": {"min_value": 0, "max_value": r.choice([1, 3, 10])}},
                {"name": "str_matches", "kw": {"pattern": "^[a-z]*$"}},
                {"name": "str_startswith", "kw": {"string": "a"}},
                {"name": "isin", "kw": {"allowed_values": ["a", "b", "c", "ab"]}},
                {"name": "ne", "kw": {"value": "zzz"}},
            ])
        elif dtype == "bool":
            c = r.choice([{"name": "isin", "kw": {"allowed_values": [True, False]}}, {"name": "eq", "kw": {"value": True}}])
        else:
            # {"$ts": ...} stands for a pandas.Timestamp (JSON cannot hold one): statistics that are live datetime objects,
            # which serialisers have to convert, are a different code path from plain strings
            c = r.choice([{"name": "ge", "kw": {"min_value": "2000-01-01"}}, {"name": "lt", "kw": {"max_value": "2100-01-01"}},
                          {"name": "ge", "kw": {"min_value": {"$ts": "1990-01-01"}}},
                          {"name": "in_range", "kw": {"min_value": {"$ts": "1990-01-01"}, "max_value": {"$ts": "2100-01-01"}}},
                          {"name": "isin", "kw": {"allowed_values": [{"$ts": "2020-01-01"}, {"$ts": "2021-06-15"}, {"$ts": "1999-12-31"},
                                                                      {"$ts": "2030-02-02"}]}},
                          {"name": "notin", "kw": {"forbidden_values": [{"$ts": "1980-05-05"}]}}])
        c = dict(c)
        c["t"] = "builtin"
        c["opts"] = self.opts()
        return c

    def cb_check(self, dtype, backend, level="col", other_cols=()):
        r = self.rng
        if backend == "polars":
            kind = r.choice(PL_DF_CB if level == "df" else PL_COL_CB[_family(dtype)])
        else:
            kind = r.choice(DF_CB if level == "df" else COL_CB[_family(dtype)])
        c = {"t": "cb", "cb": kind, "site": self.site("c"), "opts": self.opts()}
        if kind in ELEMENTWISE:
            c["opts"]["element_wise"] = True
        elif backend == "pandas" and level == "col" and self.feat["groupby"] and other_cols and r.random() < 0.5:
            c["cb"] = "grp_all"
            if r.random() < 0.5:
                c["groupby"] = r.choice(list(other_cols))
            else:
                c["groupby_fn"] = {"site": self.site("g"), "col": r.choice(list(other_cols))}
        if self.feat["name_collision"] and r.random() < 0.3:
            c["opts"]["name"] = r.choice(["isin", "ge", "my_check"])  # a custom check whose name may collide with a built-in
        return c

    def checks(self, dtype, backend, level="col", other_cols=()):
        r = self.rng
        out = []
        for _ in range(r.choice([0, 1, 1, 2, 3])):
            if r.random() < self.want_callbacks:
                out.append(self.cb_check(dtype, backend, level, other_cols))
            elif level == "col":
                out.append(self.builtin_check(dtype))
        return out

    def parsers(self, backend, level="col"):
        r = self.rng
        if backend != "pandas" or not self.feat["parsers"] or r.random() < 0.5:
            return []
        out = []
        for _ in range(r.choice([1, 1, 2])):
            kind = r.choice(["parse_ident", "parse_abs", "parse_elem_ident"])
            out.append({"cb": kind, "site": self.site("p"), "element_wise": kind in ELEMENTWISE})
        if level == "df" and out:
            r2 = random.Random(r.getrandbits(32))
            if r2.random() < 0.35:
                out[r2.randrange(len(out))] = {"cb": r2.choice(["dfparse_drop_first", "dfparse_rename_first"]), "site": out[0]["site"],
                                               "element_wise": False}
        return out

    def column(self, name, backend, other_cols=(), regex=False):
        r = self.rng
        dtype = r.choice(DTYPES)
        if backend == "pandas" and self.feat["custom_dtype"] and r.random() < 0.3:
            dtype = "simint"
        if r.random() < 0.08:
            dtype = None
        c = {
            "name": name, "dtype": dtype,
            "nullable": self.feat["nullable"] and r.random() < 0.4,
            "unique": self.feat["unique"] and r.random() < 0.25,
            "coerce": self.feat["coerce"] and r.random() < 0.4 * self.p_boost,
            "required": not (self.feat["optional"] and r.random() < 0.3),
            "regex": regex,
            "default": None,
            "checks": self.checks(dtype or "str", backend, "col", other_cols),
            "parsers": self.parsers(backend),
        }
        if self.feat["defaults"] and dtype in ("int64", "float64", "str") and r.random() < 0.4:
            c["default"] = {"int64": 0, "float64": 0.5, "str": "a"}[dtype]
        if self.feat["drop_invalid_rows"] and r.random() < 0.2:
            c["drop_invalid_rows"] = True
        return c

    def index(self, backend):
        r = self.rng
        if backend != "pandas":
            return None
        if self.feat["multiindex"] and r.random() < 0.4 * self.p_boost:
            return {"multi": [self.index_component(f"i{k}") for k in range(2)], "coerce": r.random() < 0.2,
                    "strict": r.random() < 0.2, "ordered": r.random() < 0.8}
        if self.feat["index"] and r.random() < 0.6:
            return self.index_component(r.choice([None, "idx"]))
        return None

    def index_component(self, name):
        r = self.rng
        dtype = r.choice(["int64", "str", "int64"])
        return {"name": name, "dtype": dtype, "nullable": False, "unique": r.random() < 0.3,
                "coerce": self.feat["coerce"] and r.random() < 0.3 * self.p_boost, "checks": self.checks(dtype, "pandas", "col")}

    def schema(self, kind=None, backend=None):
        r = self.rng
        backend = backend or self.backend or r.choice(["pandas", "pandas", "polars"])
        if kind is None:
            kind = r.choice(["dfs", "dfs", "dfs", "series", "column", "model"] if backend == "pandas"
                            else ["dfs", "dfs", "column", "model"])
        spec = {"backend": backend, "kind": kind}
        if kind == "dfs" or kind == "model":
            ncols = r.choice([1, 2, 2, 3, 4])
            dtype_only = kind == "dfs" and self.feat["schema_dtype"] and random.Random(r.getrandbits(32)).random() < 0.25
            if dtype_only:
                ncols = 0           # a schema that only declares a dataframe-level dtype: its columns are whatever the frame has
            isre = [kind == "dfs" and self.feat["regex"] and r.random() < 0.3 for _ in range(ncols)]
            names = [(f"^r{k}_.*$" if isre[k] else f"c{k}") for k in range(ncols)]
            cols = []
            for k, nm in enumerate(names):
                others = [n for j, n in enumerate(names) if n != nm and not isre[j]]
                cols.append(self.column(nm, backend, others, regex=isre[k]))
            if kind == "model":
                for c in cols:       # models here use plain (non-regex) fields, no custom dtype, no parsers
                    c["regex"] = False
                    c["parsers"] = []
                    if c["dtype"] in ("simint", None):
                        c["dtype"] = "int64"
                    c.pop("drop_invalid_rows", None)
            spec["columns"] = cols
            spec["index"] = self.index(backend) if kind == "dfs" else None
            spec["checks"] = self.checks(None, backend, "df") if self.feat["df_checks"] else []
            spec["parsers"] = self.parsers(backend, level="df") if kind == "dfs" else []
            spec["dtype"] = r.choice(["int64", "float64"]) if (kind == "dfs" and self.feat["schema_dtype"] and r.random() < 0.3) else None
            if dtype_only and spec["dtype"] is None:
                spec["dtype"] = "int64"
            spec["coerce"] = self.feat["coerce"] and r.random() < 0.3 * self.p_boost
            spec["strict"] = (True if self.feat["strict"] and r.random() < 0.5 else
                              ("filter" if self.feat["filter"] and r.random() < 0.5 else False))
            spec["ordered"] = self.feat["ordered"] and r.random() < 0.5
            plain = [c["name"] for c in cols if not c["regex"]]
            spec["unique"] = (r.sample(plain, min(len(plain), r.choice([1, 2]))) if self.feat["joint_unique"] and plain
                              and r.random() < 0.5 else None)
            spec["add_missing_columns"] = self.feat["add_missing"] and r.random() < 0.5
            spec["drop_invalid_rows"] = self.feat["drop_invalid_rows"] and r.random() < 0.5
            spec["name"] = r.choice([None, "S"])
            if kind == "model" and backend == "pandas" and r.random() < 0.4:
                # a dataframe-level check declared by name in the model's Config (pandera.extensions registered check)
                spec["extras"] = {"sim_min_rows": {"min_rows": r.choice([0, 1, 3])}}
        elif kind == "series":
            c = self.column("ser", "pandas")
            c["regex"] = False
            c["name"] = r.choice([None, "ser"])
            spec["column"] = c
            spec["index"] = self.index("pandas")
            if spec["index"] and "multi" in spec["index"]:
                spec["index"] = spec["index"]["multi"][0]
        elif kind == "column":
            c = self.column("c0", backend, ["c1"])
            c["regex"] = False
            spec["column"] = c
        elif kind == "index":
            spec["index"] = self.index_component("idx")
        else:
            raise ValueError(kind)
        return spec

    # ---- frames -------------------------------------------------------------------------
    def values(self, dtype, n, nulls=False, dup=False):
        r = self.rng
        if dtype in ("int64", "simint"):
            vals = [r.choice([0, 1, 2, 3, 4, 5, 7, -1, 42, 250]) for _ in range(n)]
        elif dtype == "float64":
            vals = [r.choice([0.0, 0.5, 1.0, 2.5, -1.5, 3.0, 100.25]) for _ in range(n)]
        elif dtype == "str":
            vals = [r.choice(["a", "b", "ab", "c", "abc", "A", "", "zz9"]) for _ in range(n)]
        elif dtype == "bool":
            vals = [r.choice([True, False]) for _ in range(n)]
        elif dtype in ("datetime64[ns]", "datetime_tz_agnostic"):
            vals = [r.choice(["2020-01-01", "2021-06-15", "1999-12-31", "2030-02-02"]) for _ in range(n)]
        else:
            vals = [r.choice([0, 1, 2]) for _ in range(n)]
        if not dup and n > 0 and dtype != "bool":
            vals = _dedupe(vals, dtype)
        if nulls and n > 0:
            vals[r.randrange(n)] = None
        return vals

    def frame_for(self, spec, conform=0.5):
        """A frame aimed at the schema: mostly conforming, then optionally perturbed."""
        r = self.rng
        n = r.choice([0, 1, 2, 3, 4, 5]) if r.random() < 0.9 else r.choice([8, 12])
        cols = []
        kind = spec["kind"]
        if kind in ("dfs", "model"):
            if not spec["columns"]:
                # dtype-only schema: frames with differing column names and counts
                for nm in r.sample(["x", "y", "z", "w"], r.choice([1, 2, 3])):
                    cols.append({"name": nm, "dtype": spec.get("dtype") or "int64", "values": self.values(spec.get("dtype") or "int64", n, dup=True)})
            for c in spec["columns"]:
                dt = spec.get("dtype") or c["dtype"] or "int64"
                if c["regex"]:
                    base = c["name"].strip("^$").replace(".*", "")
                    for suffix in (["x"] if r.random() < 0.5 else ["x", "y"]):
                        cols.append({"name": base + suffix, "dtype": dt, "values": self.values(dt, n, dup=not c["unique"])})
                else:
                    cols.append({"name": c["name"], "dtype": dt, "values": self.values(dt, n, dup=not c["unique"])})
                    if dt == "datetime_tz_agnostic":
                        cols[-1]["tz"] = r.choice(["UTC", "US/Eastern", "Asia/Tokyo"])
        elif kind == "column":
            c = spec["column"]
            cols.append({"name": c["name"], "dtype": c["dtype"] or "int64", "values": self.values(c["dtype"] or "int64", n)})
            cols.append({"name": "c1", "dtype": "str", "values": self.values("str", n, dup=True)})
        elif kind == "series":
            c = spec["column"]
            cols.append({"name": c["name"], "dtype": c["dtype"] or "int64", "values": self.values(c["dtype"] or "int64", n)})
        elif kind == "index":
            cols.append({"name": "v", "dtype": "int64", "values": self.values("int64", n)})
        fr = {"columns": cols, "index": None}
        ix = spec.get("index")
        if ix:
            if "multi" in ix:
                fr["index"] = {"multi": [{"name": lv["name"], "dtype": lv["dtype"], "values": self.values(lv["dtype"], n, dup=True)}
                                         for lv in ix["multi"]]}
            else:
                fr["index"] = {"name": ix["name"], "dtype": ix["dtype"], "values": self.values(ix["dtype"], n, dup=not ix["unique"])}
        # data that *needs* the coercion the schema offers: the same values as strings for one coercing numeric target
        r2 = random.Random(r.getrandbits(32))
        if r2.random() < 0.3:
            self.needs_coercion(spec, fr, r2)
        if r.random() >= conform:
            self.perturb(fr, n)
        return fr

    def needs_coercion(self, spec, fr, r2):
        targets = []
        byname = {c["name"]: c for c in fr["columns"]}
        for c in (spec.get("columns") or []) + ([spec["column"]] if spec.get("column") else []):
            if (c.get("coerce") or spec.get("coerce")) and c["dtype"] in ("int64", "float64", "simint") and c["name"] in byname:
                targets.append(byname[c["name"]])
        ix, fix = spec.get("index"), fr.get("index")
        if ix and fix:
            slv = ix["multi"] if "multi" in ix else [ix]
            flv = fix["multi"] if "multi" in fix else [fix]
            for a, b in zip(slv, flv):
                if (a.get("coerce") or ix.get("coerce") or spec.get("coerce")) and a["dtype"] == "int64":
                    targets.append(b)
        if targets:
            c = r2.choice(targets)
            c["values"] = [None if v is None else str(v) for v in c["values"]]
            c["dtype"] = "str"

    def perturb(self, fr, n):
        r = self.rng
        for _ in range(r.choice([1, 1, 2, 3])):
            cols = fr["columns"]
            m = r.choice(["drop_col", "extra_col", "retype", "null", "dup", "reorder", "bad_value", "rename", "index_drop", "index_retype",
                          "coercible", "coercible", "tz", "index_rename", "nulls2"])
            if m == "drop_col" and len(cols) > 1:
                cols.pop(r.randrange(len(cols)))
            elif m == "extra_col":
                cols.insert(r.randrange(len(cols) + 1), {"name": r.choice(["extra", "zz", "index"]), "dtype": "int64", "values": self.values("int64", n, dup=True)})
            elif m == "retype" and cols:
                c = r.choice(cols)
                c["dtype"] = r.choice([d for d in DTYPES if d != c["dtype"]])
                c["values"] = self.values(c["dtype"], n, dup=True)
            elif m == "null" and cols and n:
                c = r.choice(cols)
                c["values"][r.randrange(n)] = None
            elif m == "dup" and cols and n >= 2:
                c = r.choice(cols)
                c["values"][0] = c["values"][1]
            elif m == "reorder" and len(cols) > 1:
                r.shuffle(cols)
            elif m == "bad_value" and cols and n:
                c = r.choice(cols)
                bad = {"int64": -77, "simint": -77, "float64": -77.5, "str": "ZZZZZZZZZZZZ", "bool": False, "datetime64[ns]": "1900-01-01"}
                c["values"][r.randrange(n)] = bad.get(c["dtype"], -77)
            elif m == "rename" and cols:
                r.choice(cols)["name"] = "renamed"
            elif m == "index_drop":
                fr["index"] = None
            elif m == "coercible":
                # same values in another representation: conforming only if the schema coerces (makes skipped coercion visible)
                targets = [c for c in cols if c["dtype"] in ("int64", "float64", "simint")]
                ixs = fr["index"]
                if ixs:
                    targets += [lv for lv in (ixs["multi"] if "multi" in ixs else [ixs]) if lv["dtype"] == "int64"]
                if targets:
                    c = r.choice(targets)
                    c["values"] = [None if v is None else str(v) for v in c["values"]]
                    c["dtype"] = "str"
            elif m == "nulls2" and cols and n >= 2:
                c = r.choice(cols)          # duplicates that are nulls only
                c["values"][0] = None
                c["values"][n - 1] = None
            elif m == "index_rename":
                ixs = fr["index"]
                if ixs:
                    r.choice(ixs["multi"] if "multi" in ixs else [ixs])["name"] = "other_name"
            elif m == "tz":
                dts = [c for c in cols if c["dtype"] == "datetime64[ns]"]
                if dts:
                    r.choice(dts)["tz"] = r.choice(["UTC", "US/Eastern"])
            elif m == "index_retype" and fr["index"] and "multi" not in fr["index"]:
                fr["index"]["dtype"] = "str" if fr["index"]["dtype"] != "str" else "int64"
                fr["index"]["values"] = self.values(fr["index"]["dtype"], n, dup=True)


def _dedupe(vals, dtype):
    seen = set()
    out = []
    k = 0
    for v in vals:
        while v in seen:
            k += 1
            if dtype in ("int64", "simint"):
                v = 1000 + k
            elif dtype == "float64":
                v = 1000.5 + k
            elif dtype == "str":
                v = "u" * ((k % 3) + 1) + "abcdefghijklmnopqrstuvwxyz"[k % 26]
            else:
                v = f"20{10 + (k % 80):02d}-03-0{(k % 9) + 1}"
        seen.add(v)
        out.append(v)
    return out


# ---------------------------------------------------------------------------------------------
# builders
# ---------------------------------------------------------------------------------------------
def build_check(c, backend):
    opts = dict(c.get("opts", {}))
    if c["t"] == "builtin":
        kw = {k: _unmarshal(v) for k, v in c["kw"].items()}
        return getattr(pa.Check, c["name"])(**kw, **opts)
    kind = c["cb"]
    fn = make_pl_check_fn(kind, c["site"]) if kind.startswith("pl_") else make_check_fn(kind, c["site"])
    if "groupby" in c:
        opts["groupby"] = c["groupby"]
    if "groupby_fn" in c:
        opts["groupby"] = make_groupby_fn(c["groupby_fn"]["site"], c["groupby_fn"]["col"])
    chk = pa.Check(fn, **opts)
    # attribution tags (survive deepcopy; not part of the fingerprint; present on twin objects alike)
    chk._verif_site = c["site"]
    if "groupby_fn" in c:
        chk._verif_gsite = c["groupby_fn"]["site"]
    return chk


def _unmarshal(v):
    if isinstance(v, dict) and "$ts" in v:
        return pd.Timestamp(v["$ts"])
    if isinstance(v, list):
        return [_unmarshal(x) for x in v]
    return v


def build_parser(p):
    return Parser(make_parser_fn(p["cb"], p["site"]), element_wise=p.get("element_wise", False))


def _dtype(d, backend):
    if d is None:
        return None
    if d == "simint":
        return SimInt()
    if d == "datetime_tz_agnostic":
        if backend == "polars":
            from pandera.engines import polars_engine
            return polars_engine.DateTime(time_zone_agnostic=True)
        return pandas_engine.DateTime(time_zone_agnostic=True)
    if backend == "polars":
        return PL_DTYPES[d]
    return d


def build_column(c, backend, with_name=True):
    kw = dict(
        dtype=_dtype(c["dtype"], backend), checks=[build_check(x, backend) for x in c["checks"]] or None,
        nullable=c["nullable"], unique=c["unique"], coerce=c["coerce"], required=c["required"],
        regex=c["regex"], default=c["default"],
    )
    if with_name:
        kw["name"] = c["name"]
    if c.get("drop_invalid_rows"):
        kw["drop_invalid_rows"] = True
    if backend == "polars":
        return pap.Column(**kw)
    kw["parsers"] = [build_parser(p) for p in c["parsers"]] or None
    return pa.Column(**kw)


def build_index(ix):
    if ix is None:
        return None
    if "multi" in ix:
        return pa.MultiIndex([build_index(lv) for lv in ix["multi"]], coerce=ix["coerce"], strict=ix["strict"], ordered=ix["ordered"])
    return pa.Index(_dtype(ix["dtype"], "pandas"), checks=[build_check(x, "pandas") for x in ix["checks"]] or None,
                    nullable=ix["nullable"], unique=ix["unique"], coerce=ix["coerce"], name=ix["name"])


_MODEL_NO = [0]


def build_model(spec):
    """DataFrameModel with bare annotations (Series[...] annotations cannot be compiled in this environment)."""
    backend = spec["backend"]
    mod = pap if backend == "polars" else pa
    ann = {}
    ns = {}
    names = {}
    py = {"int64": int, "float64": float, "str": str, "bool": bool, "datetime64[ns]": (pl.Datetime if backend == "polars" else pd.Timestamp)}
    for c in spec["columns"]:
        ann[c["name"]] = py[c["dtype"]]
        fkw = dict(nullable=c["nullable"], unique=c["unique"], coerce=c["coerce"])
        for chk in c["checks"]:
            if chk["t"] == "builtin" and not chk["opts"]:
                # Field(ge=..) style built-ins
                arg = {"ge": "ge", "gt": "gt", "le": "le", "lt": "lt", "isin": "isin", "notin": "notin", "ne": "ne", "eq": "eq"}.get(chk["name"])
                if arg and arg not in fkw and len(chk["kw"]) == 1:
                    fkw[arg] = _unmarshal(list(chk["kw"].values())[0])
        if c["default"] is not None:
            fkw["default"] = c["default"]
        ns[c["name"]] = mod.Field(**fkw)
        k = 0
        for chk in c["checks"]:
            if chk["t"] == "cb" and "groupby" not in chk and "groupby_fn" not in chk:
                k += 1
                kind = chk["cb"]
                fn = make_pl_check_fn(kind, chk["site"]) if kind.startswith("pl_") else make_check_fn(kind, chk["site"])
                opts = {kk: v for kk, v in chk["opts"].items() if kk != "name"}
                meth = (lambda f: (lambda cls, x: f(x)))(fn)
                meth.__name__ = f"chk_{c['name']}_{k}"
                names[meth.__name__] = chk["site"]
                ns[meth.__name__] = mod.check(c["name"], **opts)(meth)
    k = 0
    for chk in spec.get("checks", []):
        if chk["t"] == "cb":
            k += 1
            kind = chk["cb"]
            fn = make_pl_check_fn(kind, chk["site"]) if kind.startswith("pl_") else make_check_fn(kind, chk["site"])
            opts = {kk: v for kk, v in chk["opts"].items() if kk != "name"}
            meth = (lambda f: (lambda cls, x: f(x)))(fn)
            meth.__name__ = f"dfchk_{k}"
            names[meth.__name__] = chk["site"]
            ns[meth.__name__] = mod.dataframe_check(**opts)(meth)
    cfg = {"strict": spec["strict"], "ordered": spec["ordered"], "coerce": spec["coerce"], "name": spec["name"],
           "add_missing_columns": spec["add_missing_columns"], "drop_invalid_rows": spec["drop_invalid_rows"]}
    if spec["unique"]:
        cfg["unique"] = list(spec["unique"])
    for k, v in (spec.get("extras") or {}).items():
        cfg[k] = dict(v)
    ns["Config"] = type("Config", (), cfg)
    ns["__annotations__"] = ann
    _MODEL_NO[0] += 1
    cls = type(mod.DataFrameModel)(f"SimModel{_MODEL_NO[0]}", (mod.DataFrameModel,), ns)
    cls._verif_names = names
    return cls


def site_of_check(chk, subject=None):
    """Callback site(s) a pandera Check object belongs to."""
    sites = set()
    s = getattr(chk, "_verif_site", None)
    if s:
        sites.add(s)
    g = getattr(chk, "_verif_gsite", None)
    if g:
        sites.add(g)
    names = getattr(subject, "_verif_names", None)
    if names and getattr(chk, "name", None) in names:
        sites.add(names[chk.name])
    return sites


def build_schema(spec):
    """Returns the object on which `.validate` is called (schema, component, or DataFrameModel class)."""
    backend = spec["backend"]
    kind = spec["kind"]
    if kind == "dfs":
        mod = pap if backend == "polars" else pa
        cols = {c["name"]: build_column(c, backend, with_name=False) for c in spec["columns"]}
        kw = dict(
            columns=cols, checks=[build_check(x, backend) for x in spec["checks"]] or None,
            dtype=_dtype(spec["dtype"], backend), coerce=spec["coerce"], strict=spec["strict"], ordered=spec["ordered"],
            unique=spec["unique"], add_missing_columns=spec["add_missing_columns"],
            drop_invalid_rows=spec["drop_invalid_rows"], name=spec["name"],
        )
        if backend == "pandas":
            kw["index"] = build_index(spec["index"])
            kw["parsers"] = [build_parser(p) for p in spec["parsers"]] or None
        return mod.DataFrameSchema(**kw)
    if kind == "model":
        return build_model(spec)
    if kind == "series":
        c = spec["column"]
        return pa.SeriesSchema(
            _dtype(c["dtype"], "pandas"), checks=[build_check(x, "pandas") for x in c["checks"]] or None,
            parsers=[build_parser(p) for p in c["parsers"]] or None, index=build_index(spec["index"]),
            nullable=c["nullable"], unique=c["unique"], coerce=c["coerce"], name=c["name"], default=c["default"],
            drop_invalid_rows=bool(c.get("drop_invalid_rows")),
        )
    if kind == "column":
        return build_column(spec["column"], backend)
    if kind == "index":
        return build_index(spec["index"])
    raise ValueError(kind)


def _series(values, dtype, name=None, tz=None):
    if dtype == "simint":
        dtype = "int64"
    if dtype == "datetime_tz_agnostic":
        ser = pd.Series(pd.to_datetime(pd.Series(values, dtype="object")), name=name)
        try:
            return ser.dt.tz_localize(tz or "UTC")
        except Exception:  # noqa: BLE001
            return ser
    try:
        if dtype == "datetime64[ns]":
            ser = pd.Series(pd.to_datetime(pd.Series(values, dtype="object")), name=name)
            return ser.dt.tz_localize(tz) if tz else ser
        if dtype == "str":
            return pd.Series(values, dtype="object", name=name)
        if dtype in ("int64", "bool") and any(v is None for v in values):
            return pd.Series(values, dtype="float64" if dtype == "int64" else "object", name=name)
        return pd.Series(values, dtype=dtype, name=name)
    except Exception:  # noqa: BLE001 mixed values after perturbation: let pandas infer
        return pd.Series(values, name=name, dtype="object")


def _pd_index(ix, n):
    if ix is None:
        return pd.RangeIndex(n)
    if "multi" in ix:
        arrays = [_series(lv["values"], lv["dtype"]).values for lv in ix["multi"]]
        return pd.MultiIndex.from_arrays(arrays, names=[lv["name"] for lv in ix["multi"]])
    return pd.Index(_series(ix["values"], ix["dtype"]).values, name=ix["name"])


def build_frame(fr, backend="pandas", kind="dfs", lazy=False):
    """Frame spec -> pandas DataFrame / Series or polars DataFrame / LazyFrame."""
    cols = fr["columns"]
    n = len(cols[0]["values"]) if cols else (len(fr["index"]["values"]) if fr.get("index") and "values" in fr["index"] else 0)
    if backend == "polars":
        data = {}
        for c in cols:
            dt = PL_DTYPES.get(c["dtype"], pl.Int64)
            vals = c["values"]
            try:
                if c["dtype"] in ("datetime64[ns]", "datetime_tz_agnostic"):
                    ser = pl.Series(c["name"], vals, dtype=pl.Utf8).str.to_datetime(time_unit="us" if c["dtype"] == "datetime_tz_agnostic" else "ns", strict=False)
                    data[c["name"]] = ser.dt.replace_time_zone(c["tz"]) if c.get("tz") else ser
                else:
                    data[c["name"]] = pl.Series(c["name"], vals, dtype=dt, strict=False)
            except Exception:  # noqa: BLE001
                data[c["name"]] = pl.Series(c["name"], [None if v is None else str(v) for v in vals], dtype=pl.Utf8)
        df = pl.DataFrame(data)
        return df.lazy() if lazy else df
    idx = _pd_index(fr.get("index"), n)
    if kind == "series":
        c = cols[0]
        s = _series(c["values"], c["dtype"], name=c["name"], tz=c.get("tz"))
        s.index = idx
        return s
    df = pd.DataFrame({k: _series(c["values"], c["dtype"], tz=c.get("tz")).array for k, c in enumerate(cols)}, index=idx)
    df.columns = [c["name"] for c in cols]
    return df


def copy_frame(obj):
    if isinstance(obj, (pd.DataFrame, pd.Series)):
        return obj.copy(deep=True)
    return obj.clone()


def callback_sites(spec):
    """All callback sites of a schema spec with their role (check | groupby | parser), for the C06 oracle."""
    out = {}

    def walk_checks(chs):
        for c in chs or []:
            if c["t"] == "cb":
                out[c["site"]] = "check"
                if "groupby_fn" in c:
                    out[c["groupby_fn"]["site"]] = "groupby"

    def walk_col(c):
        walk_checks(c.get("checks"))
        for p in c.get("parsers") or []:
            out[p["site"]] = "parser"

    for c in spec.get("columns", []) or []:
        walk_col(c)
    if spec.get("column"):
        walk_col(spec["column"])
    ix = spec.get("index")
    if ix:
        for lv in (ix["multi"] if "multi" in ix else [ix]):
            walk_checks(lv.get("checks"))
    walk_checks(spec.get("checks"))
    for p in spec.get("parsers") or []:
        out[p["site"]] = "parser"
    out["dtype.check"] = "dtype"
    out["dtype.coerce"] = "dtype"
    out["dtype.coerce_value"] = "dtype"
    return out


def spec_features(spec):
    """Feature tags of a schema spec; part of violation class keys so a known finding names its trigger."""
    f = set()
    f.add(spec["backend"])
    f.add(spec["kind"])
    cols = list(spec.get("columns") or []) + ([spec["column"]] if spec.get("column") else [])
    if spec.get("drop_invalid_rows") or any(c.get("drop_invalid_rows") for c in cols):
        f.add("drop_invalid_rows")
    if any(c.get("regex") for c in cols):
        f.add("regex")
    if spec.get("unique"):
        f.add("joint_unique")
    return f


def clone_spec(spec):
    return copy.deepcopy(spec)


_WARM = [False]


def warm_registries():
    """Fill the lazily populated process-wide registries (backend registries of both backends, built-in check
    dispatchers) so that a run never depends on what earlier runs in the same worker process happened to import."""
    if _WARM[0]:
        return
    pa.DataFrameSchema({"a": pa.Column(int, pa.Check.ge(0))}, index=pa.Index(int)).validate(pd.DataFrame({"a": [1]}))
    pa.SeriesSchema(int).validate(pd.Series([1]))
    pap.DataFrameSchema({"a": pap.Column(pl.Int64, pa.Check.ge(0))}).validate(pl.DataFrame({"a": [1]}))
    _WARM[0] = True
