"""Runs inside a fresh interpreter started with a generated PANDERA_* environment (C18(b)): the simulated
'process restart with different durable configuration'.  Prints one JSON line."""
import json
import os
import sys
import warnings

VERIF_DIR = os.path.dirname(os.path.dirname(os.path.abspath(__file__)))
sys.path.insert(0, VERIF_DIR)
from sim import kernel  # noqa: E402

kernel.use_repo()
warnings.filterwarnings("ignore")

from pandera import config  # noqa: E402  (reads the environment at import)
from checks import c18  # noqa: E402
from sim import depthcases  # noqa: E402


def main():
    g = c18.cfg_tuple(config.get_config_global())
    c = c18.cfg_tuple(config.get_config_context(validation_depth_default=None))
    vio = []
    cells = 0
    # expectation is computed from the *documented meaning of the assignment*, not from what pandera parsed
    enabled = {"True": True, "False": False}.get(os.environ.get("PANDERA_VALIDATION_ENABLED"), True)
    gdepth = os.environ.get("PANDERA_VALIDATION_DEPTH")
    for (backend, container, name, level, kind, mk_s, mk_d) in depthcases.all_cases():
        for lazy in (False, True):
            cells += 1
            vio += c18.eval_case(backend, container, name, level, kind, mk_s, mk_d, lazy, enabled, None, gdepth)
            # a context setting inside a process whose environment also configures the depth: the innermost setting wins
            for cdepth in ("SCHEMA_ONLY", "DATA_ONLY", "SCHEMA_AND_DATA"):
                cells += 1
                with config.config_context(validation_depth=config.ValidationDepth[cdepth]):
                    vio += c18.eval_case(backend, container, name, level, kind, mk_s, mk_d, lazy, enabled, cdepth, gdepth)
            if not enabled:
                cells += 1
                with config.config_context(validation_enabled=True):
                    vio += c18.eval_case(backend, container, name, level, kind, mk_s, mk_d, lazy, True, None, gdepth)
    after = c18.cfg_tuple(config.get_config_context(validation_depth_default=None))
    if after != c:
        vio.append(("env|context-changed-by-validate", f"{c} -> {after}"))
    seen, out = set(), []
    for k, d in vio:
        if k not in seen:
            seen.add(k)
            out.append([k, d])
    print(json.dumps({"global": list(g), "context": list(c), "violations": out, "cells": cells}))


if __name__ == "__main__":
    main()
