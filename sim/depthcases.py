"""C18(c)(i): finite labelled matrix of (backend, container kind, constraint kind) scenarios, each violating exactly
one constraint that the documentation classifies unambiguously:
  schema-level = "column names and datatypes"; data-level = "checks on actual values".
Nullability (classified differently by the two backends, not classified by the docs) is deliberately absent.
"""
from __future__ import annotations

import pandas as pd
import polars as pl

import pandera as pa
import pandera.polars as pap


_MODELS = {}


def _pd_model(checked=True):
    key = ("pd", checked)
    if key not in _MODELS:
        if checked:
            class DepthModelPd(pa.DataFrameModel):
                a: int = pa.Field(ge=0)
        else:
            class DepthModelPd(pa.DataFrameModel):     # noqa: F811  dtype only: a value check on mistyped data would itself error
                a: int
        _MODELS[key] = DepthModelPd
    return _MODELS[key]


def _pl_model(checked=True):
    key = ("pl", checked)
    if key not in _MODELS:
        if checked:
            class DepthModelPl(pap.DataFrameModel):
                a: int = pap.Field(ge=0)
        else:
            class DepthModelPl(pap.DataFrameModel):    # noqa: F811
                a: int
        _MODELS[key] = DepthModelPl
    return _MODELS[key]


def _pd_cases():
    C = pa.Column
    out = []
    # DataFrameModel (validate is a classmethod; the compiled schema is cached on the class)
    out.append(("dtype_mismatch", "schema", "model", lambda: _pd_model(False), lambda: pd.DataFrame({"a": ["x", "y"]})))
    out.append(("column_check", "data", "model", _pd_model, lambda: pd.DataFrame({"a": [1, -2]})))
    out.append(("conforming", "none", "model", _pd_model, lambda: pd.DataFrame({"a": [1, 2]})))
    # (name, level, kind, schema factory, data factory)
    out.append(("missing_required_column", "schema", "dfs",
                lambda: pa.DataFrameSchema({"a": C(int), "b": C(int)}), lambda: pd.DataFrame({"a": [1, 2]})))
    out.append(("dtype_mismatch", "schema", "dfs",
                lambda: pa.DataFrameSchema({"a": C(int)}), lambda: pd.DataFrame({"a": ["x", "y"]})))
    out.append(("strict_extra_column", "schema", "dfs",
                lambda: pa.DataFrameSchema({"a": C(int)}, strict=True), lambda: pd.DataFrame({"a": [1, 2], "zz": [1, 2]})))
    out.append(("wrong_column_order", "schema", "dfs",
                lambda: pa.DataFrameSchema({"a": C(int), "b": C(int)}, ordered=True), lambda: pd.DataFrame({"b": [1, 2], "a": [1, 2]})))
    out.append(("column_check", "data", "dfs",
                lambda: pa.DataFrameSchema({"a": C(int, pa.Check.ge(0))}), lambda: pd.DataFrame({"a": [1, -2]})))
    out.append(("column_custom_check", "data", "dfs",
                lambda: pa.DataFrameSchema({"a": C(int, pa.Check(lambda s: s >= 0))}), lambda: pd.DataFrame({"a": [1, -2]})))
    out.append(("dataframe_check", "data", "dfs",
                lambda: pa.DataFrameSchema({"a": C(int)}, checks=pa.Check(lambda df: df["a"] >= 0)), lambda: pd.DataFrame({"a": [1, -2]})))
    out.append(("column_unique", "data", "dfs",
                lambda: pa.DataFrameSchema({"a": C(int, unique=True)}), lambda: pd.DataFrame({"a": [1, 1]})))
    out.append(("joint_unique", "data", "dfs",
                lambda: pa.DataFrameSchema({"a": C(int), "b": C(int)}, unique=["a", "b"]), lambda: pd.DataFrame({"a": [1, 1], "b": [2, 2]})))
    out.append(("index_check", "data", "dfs",
                lambda: pa.DataFrameSchema({"a": C(int)}, index=pa.Index(int, pa.Check.ge(0))), lambda: pd.DataFrame({"a": [1, 2]}, index=[-1, 0])))
    out.append(("index_dtype_mismatch", "schema", "dfs",
                lambda: pa.DataFrameSchema({"a": C(int)}, index=pa.Index(int)), lambda: pd.DataFrame({"a": [1, 2]}, index=["x", "y"])))
    # MultiIndex: the constraints sit on the levels, the MultiIndex component itself has none
    mi = lambda: pd.MultiIndex.from_arrays([[-1, 0], ["u", "v"]], names=["k0", "k1"])      # noqa: E731
    mi_bad_dtype = lambda: pd.MultiIndex.from_arrays([["x", "y"], ["u", "v"]], names=["k0", "k1"])   # noqa: E731
    out.append(("multiindex_level_check", "data", "dfs",
                lambda: pa.DataFrameSchema({"a": C(int)}, index=pa.MultiIndex([pa.Index(int, pa.Check.ge(0), name="k0"), pa.Index(str, name="k1")])),
                lambda: pd.DataFrame({"a": [1, 2]}, index=mi())))
    out.append(("multiindex_level_dtype", "schema", "dfs",
                lambda: pa.DataFrameSchema({"a": C(int)}, index=pa.MultiIndex([pa.Index(int, name="k0"), pa.Index(str, name="k1")])),
                lambda: pd.DataFrame({"a": [1, 2]}, index=mi_bad_dtype())))
    out.append(("wrong_index_name", "schema", "dfs",
                lambda: pa.DataFrameSchema({"a": C(int)}, index=pa.Index(int, name="idx")),
                lambda: pd.DataFrame({"a": [1, 2]}, index=pd.Index([0, 1], name="other"))))
    out.append(("wrong_series_index_name", "schema", "series",
                lambda: pa.SeriesSchema(int, index=pa.Index(int, name="idx"), name="s"),
                lambda: pd.Series([1, 2], index=pd.Index([0, 1], name="other"), name="s")))
    out.append(("index_unique", "data", "dfs",
                lambda: pa.DataFrameSchema({"a": C(int)}, index=pa.Index(int, unique=True)), lambda: pd.DataFrame({"a": [1, 2]}, index=[3, 3])))
    out.append(("series_index_check", "data", "series",
                lambda: pa.SeriesSchema(int, index=pa.Index(int, pa.Check.ge(0)), name="s"), lambda: pd.Series([1, 2], index=[-1, 0], name="s")))
    out.append(("series_index_dtype", "schema", "series",
                lambda: pa.SeriesSchema(int, index=pa.Index(int), name="s"), lambda: pd.Series([1, 2], index=["x", "y"], name="s")))
    # stand-alone column
    out.append(("dtype_mismatch", "schema", "column",
                lambda: C(int, name="a"), lambda: pd.DataFrame({"a": ["x", "y"]})))
    out.append(("column_check", "data", "column",
                lambda: C(int, pa.Check.ge(0), name="a"), lambda: pd.DataFrame({"a": [1, -2]})))
    out.append(("column_unique", "data", "column",
                lambda: C(int, unique=True, name="a"), lambda: pd.DataFrame({"a": [1, 1]})))
    # series
    out.append(("dtype_mismatch", "schema", "series",
                lambda: pa.SeriesSchema(int, name="s"), lambda: pd.Series(["x", "y"], name="s")))
    out.append(("wrong_series_name", "schema", "series",
                lambda: pa.SeriesSchema(int, name="s"), lambda: pd.Series([1, 2], name="other")))
    out.append(("column_check", "data", "series",
                lambda: pa.SeriesSchema(int, pa.Check.ge(0), name="s"), lambda: pd.Series([1, -2], name="s")))
    out.append(("column_unique", "data", "series",
                lambda: pa.SeriesSchema(int, unique=True, name="s"), lambda: pd.Series([1, 1], name="s")))
    # conforming controls: accepted under every depth
    out.append(("conforming", "none", "dfs",
                lambda: pa.DataFrameSchema({"a": C(int, pa.Check.ge(0), unique=True)}, strict=True, ordered=True), lambda: pd.DataFrame({"a": [1, 2]})))
    out.append(("conforming", "none", "series",
                lambda: pa.SeriesSchema(int, pa.Check.ge(0), name="s"), lambda: pd.Series([1, 2], name="s")))
    return [("pandas", "pd.DataFrame" if k != "series" else "pd.Series", n, lv, k, s, d) for (n, lv, k, s, d) in out]


def _pl_cases():
    C = pap.Column
    base = []
    base.append(("missing_required_column", "schema", "dfs",
                 lambda: pap.DataFrameSchema({"a": C(pl.Int64), "b": C(pl.Int64)}), lambda: pl.DataFrame({"a": [1, 2]})))
    base.append(("dtype_mismatch", "schema", "dfs",
                 lambda: pap.DataFrameSchema({"a": C(pl.Int64)}), lambda: pl.DataFrame({"a": ["x", "y"]})))
    base.append(("strict_extra_column", "schema", "dfs",
                 lambda: pap.DataFrameSchema({"a": C(pl.Int64)}, strict=True), lambda: pl.DataFrame({"a": [1, 2], "zz": [1, 2]})))
    base.append(("wrong_column_order", "schema", "dfs",
                 lambda: pap.DataFrameSchema({"a": C(pl.Int64), "b": C(pl.Int64)}, ordered=True), lambda: pl.DataFrame({"b": [1, 2], "a": [1, 2]})))
    base.append(("column_check", "data", "dfs",
                 lambda: pap.DataFrameSchema({"a": C(pl.Int64, pa.Check.ge(0))}), lambda: pl.DataFrame({"a": [1, -2]})))
    base.append(("column_custom_check", "data", "dfs",
                 lambda: pap.DataFrameSchema({"a": C(pl.Int64, pa.Check(lambda d: d.lazyframe.select(pl.col(d.key).ge(0))))}), lambda: pl.DataFrame({"a": [1, -2]})))
    base.append(("dataframe_check", "data", "dfs",
                 lambda: pap.DataFrameSchema({"a": C(pl.Int64)}, checks=pa.Check(lambda d: d.lazyframe.select(pl.col("a").ge(0)))), lambda: pl.DataFrame({"a": [1, -2]})))
    base.append(("column_unique", "data", "dfs",
                 lambda: pap.DataFrameSchema({"a": C(pl.Int64, unique=True)}), lambda: pl.DataFrame({"a": [1, 1]})))
    base.append(("joint_unique", "data", "dfs",
                 lambda: pap.DataFrameSchema({"a": C(pl.Int64), "b": C(pl.Int64)}, unique=["a", "b"]), lambda: pl.DataFrame({"a": [1, 1], "b": [2, 2]})))
    base.append(("dtype_mismatch", "schema", "column",
                 lambda: C(pl.Int64, name="a"), lambda: pl.DataFrame({"a": ["x", "y"]})))
    base.append(("column_check", "data", "column",
                 lambda: C(pl.Int64, pa.Check.ge(0), name="a"), lambda: pl.DataFrame({"a": [1, -2]})))
    base.append(("column_unique", "data", "column",
                 lambda: C(pl.Int64, unique=True, name="a"), lambda: pl.DataFrame({"a": [1, 1]})))
    base.append(("conforming", "none", "dfs",
                 lambda: pap.DataFrameSchema({"a": C(pl.Int64, pa.Check.ge(0), unique=True)}, strict=True, ordered=True), lambda: pl.DataFrame({"a": [1, 2]})))
    base.append(("dtype_mismatch", "schema", "model", lambda: _pl_model(False), lambda: pl.DataFrame({"a": ["x", "y"]})))
    base.append(("column_check", "data", "model", _pl_model, lambda: pl.DataFrame({"a": [1, -2]})))
    base.append(("conforming", "none", "model", _pl_model, lambda: pl.DataFrame({"a": [1, 2]})))
    out = []
    for (n, lv, k, s, d) in base:
        out.append(("polars", "pl.DataFrame", n, lv, k, s, d))
        out.append(("polars", "pl.LazyFrame", n, lv, k, s, (lambda d=d: d().lazy())))
    return out


def all_cases():
    return _pd_cases() + _pl_cases()


def expected_accept(level, depth):
    """depth in {"SCHEMA_ONLY","DATA_ONLY","SCHEMA_AND_DATA"}; level in {"schema","data","none"}"""
    if level == "none":
        return True
    if depth == "SCHEMA_AND_DATA":
        return False
    if depth == "SCHEMA_ONLY":
        return level == "data"
    return level == "schema"


def effective_depth(backend, container, ctx_depth, global_depth):
    """The depth the documentation says is in force: innermost context setting, else global, else the default -
    full depth, except a polars LazyFrame which defaults to schema-level only."""
    if ctx_depth is not None:
        return ctx_depth
    if global_depth is not None:
        return global_depth
    if container == "pl.LazyFrame":
        return "SCHEMA_ONLY"
    return "SCHEMA_AND_DATA"
