"""Parallel driver, aggregation, known-finding matching, evidence and the exit protocol.

A check module (checks/cXX.py) provides:
  PROP, LEVEL
  plan(tier)                  -> {"runs": int, "timeout_s": int}
  run_one(seed, tier, idx)    -> record dict (see below)          [executed in worker processes]
  replay(payload)             -> list[Violation]                    [pure function of payload + code]
  shrink_candidates(payload)  -> iterable of smaller payloads       [optional]
  describe()                  -> {"rule", "components", "assumptions", ...}
  extra_main(seed, tier)      -> list of records run in the main process [optional]

record = {"run": idx, "digest": str, "key": str | None (distinctness key when non-trivial), "steps": int,
          "stats": {name: int}, "violations": [Violation.to_json()], "sample": any | None}
"""
from __future__ import annotations

import faulthandler
import importlib
import json
import os
import re
import shutil
import subprocess
import sys
import time

from . import kernel
from .kernel import EXIT_HARNESS, EXIT_OK, EXIT_VIOLATION, HarnessError, Violation

NWORKERS = int(os.environ.get("VERIF_WORKERS", "16"))


def load(prop):
    return importlib.import_module("checks." + prop.lower())


# ---------------------------------------------------------------------------------------------
# worker side
# ---------------------------------------------------------------------------------------------
def worker_main(prop, seed, tier, first, stride, count, out):
    mod = load(prop)
    faulthandler.enable()
    with open(out, "w") as f:
        for idx in range(first, count, stride):
            faulthandler.dump_traceback_later(900, exit=True)
            try:
                rec = mod.run_one(seed, tier, idx)
            except Exception as e:  # noqa: BLE001 an exception of the machinery itself in one run: recorded, never a violation
                import traceback
                rec = {"run": idx, "digest": "harness-error", "key": None, "steps": 0, "stats": {"harness_skipped_runs": 1},
                       "violations": [], "sample": None, "harness_error": f"{type(e).__name__}: {e}\n" + traceback.format_exc()[-1500:]}
            faulthandler.cancel_dump_traceback_later()
            f.write(kernel.jdump(rec) + "\n")
            f.flush()
        f.write('{"done":true}\n')
    return 0


# ---------------------------------------------------------------------------------------------
# main side
# ---------------------------------------------------------------------------------------------
def run_workers(prop, seed, tier, runs, timeout_s, workers=None):
    workers = max(1, min(workers or NWORKERS, runs))
    wd = os.path.join(kernel.WORK, f"{prop}-{os.getpid()}")
    shutil.rmtree(wd, ignore_errors=True)
    os.makedirs(wd)
    procs = []
    for w in range(workers):
        out = os.path.join(wd, f"w{w}.jsonl")
        cmd = [kernel.PY, os.path.join(kernel.VERIF_DIR, "sim", "cli.py"), "_worker", prop, "--seed", str(seed),
               "--tier", tier, "--first", str(w), "--stride", str(workers), "--count", str(runs), "--out", out]
        log = open(os.path.join(wd, f"w{w}.log"), "w")
        procs.append((subprocess.Popen(cmd, stdout=log, stderr=subprocess.STDOUT, cwd=kernel.VERIF_DIR), out, log))
    deadline = time.monotonic() + timeout_s
    failed = []
    for p, out, log in procs:
        try:
            rc = p.wait(timeout=max(1, deadline - time.monotonic()))
        except subprocess.TimeoutExpired:
            p.kill()
            rc = "timeout"
        log.close()
        if rc != 0:
            failed.append((out, rc))
    records = []
    for p, out, log in procs:
        done = False
        if os.path.exists(out):
            with open(out) as f:
                for line in f:
                    d = json.loads(line)
                    if d.get("done"):
                        done = True
                    else:
                        records.append(d)
        if not done and not any(o == out for o, _ in failed):
            failed.append((out, "incomplete"))
    if failed:
        tails = []
        for out, rc in failed:
            lp = out.replace(".jsonl", ".log")
            tail = open(lp).read()[-3000:] if os.path.exists(lp) else ""
            tails.append(f"worker {out} rc={rc}\n{tail}")
        raise HarnessError("worker failure (never reported as exit 0 or as a VIOLATION):\n" + "\n".join(tails))
    shutil.rmtree(wd, ignore_errors=True)
    records.sort(key=lambda r: r["run"])
    return records


def load_known(prop):
    path = os.path.join(kernel.VERIF_DIR, "known_findings.json")
    if not os.path.exists(path):
        return []
    with open(path) as f:
        data = json.load(f)
    return [e for e in data.get("findings", []) if e["property"] == prop]


def match_known(known, klass, tags=()):
    """Only *open* entries suppress; a fixed entry suppresses nothing.  An entry names the violation class (regex over
    oracle|exception|location) and the trigger features the failing scenario must have (`requires`)."""
    tags = set(tags)
    for e in known:
        if e.get("status") != "open" or not re.fullmatch(e["match"], klass):
            continue
        if not set(e.get("requires", [])) <= tags:
            continue
        if e.get("requires_any") and not (set(e["requires_any"]) & tags):
            continue
        return e
    return None


def minimise(mod, v: Violation, budget=400, wall_s=150):
    """Greedy delta debugging over the module's own shrink candidates; keeps a candidate only if the
    same violation class still fires when the candidate payload is replayed."""
    if not hasattr(mod, "shrink_candidates"):
        return v
    cur = v
    tried = 0
    progress = True
    t0 = time.time()
    while progress and tried < budget and time.time() - t0 < wall_s:
        progress = False
        for cand in mod.shrink_candidates(cur.payload):
            tried += 1
            if tried > budget or time.time() - t0 > wall_s:
                break
            try:
                got = mod.replay(cand)
            except Exception:  # noqa: BLE001 a shrink candidate that cannot even be built (e.g. a dropped column a groupby refers to)
                continue
            hit = [g for g in got if g.klass == v.klass]
            if hit:
                cur = Violation(v.prop, v.klass, hit[0].detail, cand, hit[0].tags)
                progress = True
                break
    return cur


def confirm_in_fresh_interpreter(prop, path, klass):
    cmd = [os.path.join(kernel.VERIF_DIR, "check"), prop, "--replay", path, "--expect-class", klass]
    try:
        r = subprocess.run(cmd, capture_output=True, text=True, timeout=600, cwd=kernel.VERIF_DIR)
    except subprocess.TimeoutExpired:
        return False, "replay timed out"
    return ("REPRODUCED class=" in r.stdout), r.stdout[-2000:] + r.stderr[-2000:]


def aggregate(records):
    stats = {}
    digests = set()
    keys = set()
    steps = 0
    extra = 0
    for r in records:
        extra += r.get("distinct_extra", 0)
        for k, n in r.get("stats", {}).items():
            stats[k] = stats.get(k, 0) + n
        digests.add(r["digest"])
        for k in (r.get("keys") or ([r["key"]] if r.get("key") else [])):
            keys.add(k)
        steps += r.get("steps", 0)
    return stats, digests, keys, steps, extra


def main_check(prop, tier, seed, runs_override=None, workers=None):
    t0 = time.time()
    mod = load(prop)
    plan = mod.plan(tier)
    runs = runs_override or plan["runs"]
    print(f"[{prop}] VERIF_SEED={seed} tier={tier} runs={runs} workers={workers or NWORKERS} repo={kernel.REPO}", flush=True)
    records = run_workers(prop, seed, tier, runs, plan["timeout_s"], workers)
    if hasattr(mod, "extra_main"):
        records += mod.extra_main(seed, tier)
    stats, digests, keys, steps, extra = aggregate(records)
    skipped = [r for r in records if r.get("harness_error")]
    for r in skipped[:5]:
        print(f"HARNESS-SKIP: run={r['run']} {r['harness_error'][:400]}", file=sys.stderr)
    if len(skipped) > max(3, len(records) // 200):
        raise HarnessError(f"{len(skipped)} runs ended in an exception of the checking machinery")

    known = load_known(prop)
    by_class = {}
    for r in records:
        for vj in r["violations"]:
            by_class.setdefault(vj["class"], []).append(vj)
    known_hits = {}
    new = []
    for klass, vs in sorted(by_class.items()):
        rest = []
        for vj in vs:
            e = match_known(known, klass, vj.get("tags", ()))
            if e is not None:
                known_hits.setdefault(e["id"], [e, 0, vj])
                known_hits[e["id"]][1] += 1
            else:
                rest.append(vj)
        if rest:
            new.append((klass, rest))

    for fid, (e, n, v0) in sorted(known_hits.items()):
        print(f"KNOWN-FINDING: property={prop} {e['what']} [id={fid} hits={n}]")

    exit_code = EXIT_OK
    reported = []
    # A gross breakage can produce hundreds of violation classes.  Fully process (reproduce in-process, minimise, confirm the
    # minimised replay in a fresh interpreter) one class per family (first two segments of the class key), at most MAX_FULL
    # families and within a wall budget; every further class still gets its own VIOLATION line with an un-minimised replay file.
    MAX_FULL, MAX_LINES, BUDGET_S = 6, 40, 900
    t_min = time.time()
    families = set()
    irreproducible = []
    new.sort(key=lambda kv: (len(kv[0]), kv[0]))
    for klass, vs in new:
        vs.sort(key=lambda vj: len(kernel.jdump(vj["payload"])))   # smallest payload first: cheaper minimisation
        v = Violation.from_json(vs[0])
        fam = "|".join(klass.split("|")[:2])
        full = fam not in families and len(families) < MAX_FULL and time.time() - t_min < BUDGET_S
        if not full:
            exit_code = EXIT_VIOLATION
            if len(reported) < MAX_LINES:
                path = kernel.write_replay(prop, v.klass, v.detail, v.payload, seed,
                                           {"occurrences_in_batch": len(vs), "tags": v.tags, "minimised": False})
                print(f"VIOLATION property={prop} replay={path}")
                print(f"  class={klass} (not minimised: same family as a minimised one or over the per-run budget)\n  detail={v.detail}")
                reported.append({"class": klass, "replay": path, "occurrences": len(vs), "minimised": False})
            continue
        try:
            got = mod.replay(v.payload)
        except HarnessError:
            raise
        except Exception as e:  # noqa: BLE001 the replay machinery itself failed on this payload: treated as not reproduced
            print(f"HARNESS-NOTE: replay of class {klass!r} raised {type(e).__name__}: {e}", file=sys.stderr)
            got = []
        if not any(g.klass == klass for g in got):
            # never report what cannot be replayed; remembered, and a harness error only if nothing at all can be reported
            irreproducible.append((klass, [g.klass for g in got]))
            print(f"HARNESS-NOTE: class {klass!r} did not reproduce in-process from its own payload (got {[g.klass for g in got][:4]}); "
                  f"not reported", file=sys.stderr)
            continue
        families.add(fam)
        v = minimise(mod, v)
        path = kernel.write_replay(prop, v.klass, v.detail, v.payload, seed, {"occurrences_in_batch": len(vs), "tags": v.tags, "minimised": True})
        ok, outp = confirm_in_fresh_interpreter(prop, path, klass)
        if not ok:
            # reproduces in this (used) process but not in a fresh one: it depends on state left behind by earlier runs
            irreproducible.append((klass, ["not reproduced in a fresh interpreter"]))
            families.discard(fam)
            print(f"HARNESS-NOTE: minimised replay {path} did not reproduce class {klass!r} in a fresh interpreter; not reported\n"
                  f"{outp[-600:]}", file=sys.stderr)
            continue
        print(f"VIOLATION property={prop} replay={path}")
        print(f"  class={klass}\n  detail={v.detail}")
        reported.append({"class": klass, "replay": path, "occurrences": len(vs), "minimised": True})
        exit_code = EXIT_VIOLATION
    if len(new) > len(reported) + len(irreproducible):
        print(f"[{prop}] {len(new) - len(reported) - len(irreproducible)} further violation classes not listed individually")
    if irreproducible and not any(r.get("minimised") for r in reported):
        raise HarnessError(f"{len(irreproducible)} violation classes did not reproduce from their own payloads and none did: "
                           f"{irreproducible[:3]}")

    wall = time.time() - t0
    desc = mod.describe()
    samples = [r["sample"] for r in records if r.get("sample") is not None][:5]
    cov = {
        "evaluations": int(stats.get("evaluations", len(records))),
        "distinct_nontrivial": len(keys) + extra,
        "rule": desc["rule"],
        "samples": samples or [{"note": "no sample recorded"}],
        "runs": len(records),
        "runs_per_hour": int(len(records) / wall * 3600) if wall > 0 else 0,
        "seeds": {"VERIF_SEED": seed, "run_streams": f"sha256(VERIF_SEED|{prop}|run_index|purpose), run_index in [0,{runs})"},
        "simulated_steps": steps,
        "simulated_time_note": "pandera has no clock; simulated time is reported as scheduler steps / callback invocations / operations",
        "distinct_event_digests": len(digests),
        "fault_kinds_fired": {k[len("fault."):]: n for k, n in sorted(stats.items()) if k.startswith("fault.")},
        "reach_probes": {k[len("probe."):]: n for k, n in sorted(stats.items()) if k.startswith("probe.")},
        "counters": {k: n for k, n in sorted(stats.items()) if not k.startswith(("fault.", "probe."))},
        "components": desc.get("components", {}),
        "known_findings_hit": {fid: n for fid, (e, n, _) in sorted(known_hits.items())},
        "new_violations": reported,
        "irreproducible_classes_dropped": [k for k, _ in irreproducible],
        "exhaustive": bool(desc.get("exhaustive", False)),
    }
    cov.update(desc.get("extra_coverage", {}))
    ev = {
        "property_id": prop, "tier": tier, "seed": seed, "level": mod.LEVEL, "coverage": cov,
        "assumptions": desc.get("assumptions", []), "wall_s": round(wall, 2), "violations": len(new),
    }
    # evidence is only ever written from a run against /repo itself; sensitivity runs (VERIF_REPO=<scratch copy>) go elsewhere
    evdir = os.environ.get("VERIF_EVIDENCE_DIR") or (os.path.join(kernel.VERIF_DIR, "evidence") if kernel.REPO == "/repo"
                                                     else os.path.join(kernel.WORK, "evidence-scratch"))
    os.makedirs(evdir, exist_ok=True)
    with open(os.path.join(evdir, f"{prop}.json"), "w") as f:
        json.dump(ev, f, indent=1, sort_keys=True, default=repr)
    print(f"[{prop}] runs={len(records)} evaluations={cov['evaluations']} distinct_nontrivial={len(keys) + extra} "
          f"digests={len(digests)} known={len(known_hits)} new={len(reported)} wall={wall:.1f}s", flush=True)
    return exit_code


def main_replay(prop, path, expect_class=None):
    mod = load(prop)
    with open(path) as f:
        body = json.load(f)
    klass = expect_class or body["violation_class"]
    got = mod.replay(body["payload"])
    hit = [g for g in got if g.klass == klass]
    if hit:
        print(f"REPRODUCED class={klass}")
        print(f"  detail={hit[0].detail}")
        e = match_known(load_known(prop), klass, hit[0].tags)
        if e is not None:
            print(f"KNOWN-FINDING: property={prop} {e['what']} [id={e['id']}]")
            return EXIT_OK
        print(f"VIOLATION property={prop} replay={path}")
        return EXIT_VIOLATION
    print(f"NOT-REPRODUCED expected class={klass} got={[g.klass for g in got]}")
    return EXIT_HARNESS
