"""Outcome canonicalisation shared by all checks.

returned(frame) -> (container kind, column labels in order, dtypes, values with NaN/None/NaT normalised, index)
raised(E)       -> (exception class; SchemaError: reason_code + check + column + canonical failure cases;
                    SchemaErrors: sorted multiset of those). Messages and tracebacks are excluded.
"""
from __future__ import annotations

import math
import re
import traceback

import pandas as pd
import polars as pl

from pandera import errors

from .kernel import REPO

_ADDR = re.compile(r" at 0x[0-9a-fA-F]+")


def norm_scalar(v):
    if v is None:
        return None
    if isinstance(v, float):
        if math.isnan(v):
            return "NaN"
        return v
    if isinstance(v, (bool, int, str)):
        return v
    if isinstance(v, (pd.Series, pd.DataFrame, pd.Index)):
        return f"<nested {type(v).__name__} len={len(v)}>"      # a container stored as an element: never repr() it (may be self-referential)
    try:
        if pd.isna(v):
            return "NaN"
    except (TypeError, ValueError):
        pass
    if hasattr(v, "item") and not isinstance(v, (pd.Timestamp,)):
        try:
            return norm_scalar(v.item())
        except Exception:  # noqa: BLE001
            pass
    try:
        return _ADDR.sub("", repr(v))
    except RecursionError:
        return f"<unrepresentable {type(v).__name__}>"


def canon_pandas(obj):
    if isinstance(obj, pd.DataFrame):
        return {
            "kind": "pd.DataFrame",
            "columns": [norm_scalar(c) for c in obj.columns],
            "dtypes": [str(t) for t in obj.dtypes],
            "values": [[norm_scalar(v) for v in obj.iloc[:, j].tolist()] for j in range(obj.shape[1])],
            "index": canon_index(obj.index),
        }
    if isinstance(obj, pd.Series):
        return {"kind": "pd.Series", "name": norm_scalar(obj.name), "dtype": str(obj.dtype),
                "values": [norm_scalar(v) for v in obj.tolist()], "index": canon_index(obj.index)}
    if isinstance(obj, pd.Index):
        return {"kind": "pd.Index", "index": canon_index(obj)}
    return {"kind": type(obj).__name__, "repr": _ADDR.sub("", repr(obj))[:500]}


def canon_index(ix):
    return {"type": type(ix).__name__, "names": [norm_scalar(n) for n in ix.names], "dtype": str(getattr(ix, "dtype", "")),
            "values": [norm_scalar(v) for v in ix.tolist()]}


def canon_polars(obj):
    if isinstance(obj, pl.LazyFrame):
        try:
            df = obj.collect()
        except Exception as e:  # noqa: BLE001 returned frame that cannot be materialised
            return {"kind": "pl.LazyFrame", "collect_error": type(e).__name__}
        d = canon_polars(df)
        d["kind"] = "pl.LazyFrame"
        return d
    if isinstance(obj, pl.DataFrame):
        return {"kind": "pl.DataFrame", "columns": list(obj.columns), "dtypes": [str(t) for t in obj.dtypes],
                "values": [[norm_scalar(v) for v in obj[c].to_list()] for c in obj.columns]}
    return {"kind": type(obj).__name__, "repr": _ADDR.sub("", repr(obj))[:500]}


def canon_obj(obj):
    if isinstance(obj, (pl.DataFrame, pl.LazyFrame)):
        return canon_polars(obj)
    return canon_pandas(obj)


def canon_failure_cases(fc):
    if fc is None:
        return None
    if isinstance(fc, pd.DataFrame):
        cols = [c for c in ("index", "failure_case", "column") if c in fc.columns]
        rows = sorted((tuple(str(norm_scalar(v)) for v in row) for row in fc[cols].itertuples(index=False)))
        return {"cols": cols, "rows": [list(r) for r in rows]}
    if isinstance(fc, (pd.Series, pd.Index)):
        return sorted(str(norm_scalar(v)) for v in fc.tolist())
    if isinstance(fc, pl.DataFrame):
        return sorted(str([norm_scalar(v) for v in row]) for row in fc.rows())
    if isinstance(fc, pl.LazyFrame):
        return "LazyFrame"
    if isinstance(fc, str):
        # a scalar failure case that is free text (for CHECK_ERROR: the message of the exception the check raised, which for
        # polars includes the whole query plan with run-specific details): only its first line, without addresses, is part of
        # the canonical outcome ("messages are excluded")
        return _ADDR.sub("", fc.split("\n", 1)[0])[:160]
    return str(norm_scalar(fc))


def check_id(chk):
    from pandera.api.base.checks import BaseCheck

    if isinstance(chk, BaseCheck):
        fn = chk.__dict__.get("_check_fn")
        vid = getattr(fn, "_verif_id", None)
        return f"Check({chk.name}|{chk.error}|{vid})"
    return _ADDR.sub("", str(chk))


def canon_schema_error(e):
    rc = getattr(e, "reason_code", None)
    return {
        "reason": getattr(rc, "name", str(rc)),
        "column": norm_scalar(getattr(getattr(e, "schema", None), "name", None)),
        "check": check_id(getattr(e, "check", None)),
        "check_index": getattr(e, "check_index", None),
        "failure_cases": canon_failure_cases(getattr(e, "failure_cases", None)),
    }


def innermost_pandera_frame(exc):
    """file:function of the innermost frame inside /repo/pandera in the traceback of exc."""
    loc = None
    for f in traceback.extract_tb(exc.__traceback__):
        if f.filename.startswith(REPO + "/pandera"):
            loc = f"{f.filename[len(REPO) + 1:]}:{f.name}"
    return loc or "outside-pandera"


def exc_name(e):
    t = e if isinstance(e, type) else type(e)
    mod = t.__module__
    if mod in ("builtins", "pandera.errors", "sim.faults"):
        return t.__name__
    return f"{mod}.{t.__name__}"


def canon_exception(e):
    name = exc_name(e)
    if isinstance(e, errors.SchemaErrors):
        items = sorted((canon_schema_error(x) for x in e.schema_errors), key=lambda d: str(sorted(d.items(), key=str)))
        return {"raised": name, "errors": items}
    if isinstance(e, errors.SchemaError):
        return {"raised": name, "error": canon_schema_error(e)}
    return {"raised": name, "where": innermost_pandera_frame(e)}


class Outcome:
    """Result of one call: the canonical form plus the live objects for oracle use."""

    def __init__(self, canon, value=None, exc=None):
        self.canon = canon
        self.value = value
        self.exc = exc

    @property
    def raised(self):
        return self.exc is not None


def run_call(fn) -> Outcome:
    try:
        v = fn()
    except BaseException as e:  # noqa: BLE001 the outcome *is* the exception
        return Outcome(canon_exception(e), exc=e)
    return Outcome({"returned": canon_obj(v)}, value=v)


# documented channel of validate (C06)
def in_documented_channel(exc, lazy):
    if isinstance(exc, errors.SchemaErrors):
        return True   # eager validate may legitimately surface a nested lazy report (e.g. MultiIndex) - still the documented family
    if isinstance(exc, errors.SchemaError):
        return True
    if isinstance(exc, (errors.SchemaDefinitionError, errors.SchemaInitError)):
        return True
    if isinstance(exc, errors.BackendNotFoundError):
        return True   # named public usage error for an argument type no backend handles
    return False
