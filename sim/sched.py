"""Thread seam: deterministic scheduler for caller threads (serves C07).

Real threads, baton passing: exactly one simulated thread is runnable at any time, all others are parked on their
own Event.  Pre-emption points are `line` trace events of frames whose code lives under <repo>/pandera (and the
simulator's callback library).  The only thing that is not real is the choice of who runs: it comes from the run's
PRNG (policies: uniform / PCT / window-targeted) or, on replay, from the recorded schedule.
"""
from __future__ import annotations

import _imp
import os
import sys
import threading

from . import kernel
from .kernel import HarnessError

PANDERA_DIR = os.path.join(kernel.REPO, "pandera") + os.sep
WORLD_FILE = os.path.join(kernel.VERIF_DIR, "sim", "world.py")

# functions that open a window in which shared state is temporarily overridden or lazily filled
WINDOWS = {
    "config_context", "reset_config_context", "get_config_context", "get_validation_depth",
    "run_schema_component_checks", "validate_column", "collect_schema_components", "set_name",
    "to_schema", "get_backend", "register_default_backends", "register_backend", "register_pandas_backends",
    "register_polars_backends", "__call__", "coerce_dtype", "_coerce_dtype_helper", "_prepare_check_time_zone_agnostic",
    "check_dtype", "validate", "strategy", "build_schema_",
}
# narrow windows: inside these the switch probability of the targeted policy is boosted
BOOST = {
    "config_context", "reset_config_context", "get_validation_depth", "run_schema_component_checks", "validate_column",
    "collect_schema_components", "set_name", "to_schema", "get_backend", "register_default_backends", "register_backend",
    "register_pandas_backends", "register_polars_backends", "_prepare_check_time_zone_agnostic",
}
PARK_TIMEOUT = 120.0


def _restore_regions():
    """Line ranges of every `with` block and every `try ... finally` statement in the tree under test (AST scan at start-up).
    Override-and-restore of shared state - the usual way a race is introduced - lives in exactly such regions, wherever a
    change to pandera puts them; the targeted policy makes one deliberate pre-emption per entry into one (see _region_entry)."""
    import ast
    out = {}
    for root, _dirs, files in os.walk(PANDERA_DIR):
        for fn in files:
            if not fn.endswith(".py"):
                continue
            path = os.path.join(root, fn)
            try:
                tree = ast.parse(open(path, encoding="utf-8").read())
            except (OSError, SyntaxError, ValueError):
                continue
            ranges = []
            for node in ast.walk(tree):
                if isinstance(node, ast.With) or (isinstance(node, ast.Try) and node.finalbody):
                    ranges.append((node.lineno, getattr(node, "end_lineno", node.lineno)))
            if ranges:
                out[path] = sorted(set(ranges))
    return out


RESTORE_REGIONS = _restore_regions()


class SimThread:
    def __init__(self, tid, fn):
        self.tid = tid
        self.fn = fn
        self.go = threading.Event()
        self.finished = False
        self.result = None
        self.exc_info = None
        self.windows = []      # stack of window names this thread is currently inside
        self.importing = 0     # depth of import statements in progress in this thread (never pre-empted: module locks)
        self.region = None     # (file, start, end) of the innermost restore region the thread's current frame was last seen in
        self.pending = None    # (step at which to pre-empt this thread once, how long the other thread is then left alone)
        self.steps = 0
        self.thread = None


class Scheduler:
    """policy: {"kind": "uniform", "p": float} | {"kind": "pct", "change_points": [...], "prio": [...]} |
               {"kind": "targeted", "p": float, "boost": float} | {"kind": "replay", "schedule": [[step, to_tid], ...]}"""

    def __init__(self, rng, policy, step_cap=400000):
        self.rng = rng
        self.policy = policy
        self.step = 0
        self.step_cap = step_cap
        self.frozen = False
        self.threads = []
        self.current = None
        self.switches = []         # (step, from, to, site)  -> the schedule (replay artefact)
        self.first = None
        self.stats = {}
        self.error = None
        self.all_done = threading.Event()
        self._replay = None
        self.hold_until = 0
        if policy["kind"] == "replay":
            self._replay = {int(s): int(t) for s, t in policy["schedule"]}
        if policy["kind"] == "pct":
            self.prio = list(policy["prio"])
            self.change_points = set(policy["change_points"])

    # ---- bookkeeping -----------------------------------------------------------------------------
    def bump(self, k, n=1):
        self.stats[k] = self.stats.get(k, 0) + n

    def runnable_others(self, me):
        return [t for t in self.threads if not t.finished and t is not me]

    # ---- tracing ---------------------------------------------------------------------------------
    def _global_trace(self, frame, event, arg):
        code = frame.f_code
        fn = code.co_filename
        if fn.startswith(PANDERA_DIR) or fn == WORLD_FILE:
            if code.co_name == "<module>":
                return None
            st = self._me()
            if st is None:
                return None
            if code.co_name in WINDOWS:
                st.windows.append(code.co_name)
                others_in = [t for t in self.threads if t is not st and not t.finished and code.co_name in t.windows]
                if others_in:
                    self.bump("probe.two_threads_inside." + code.co_name)
                return self._local_trace_window
            return self._local_trace
        if code.co_name == "_find_and_load" and fn.startswith("<frozen importlib"):
            # an import in progress holds per-module locks; a thread parked inside one would block every other thread that
            # imports the same module while holding the baton.  Imports are therefore atomic for the scheduler.
            st = self._me()
            if st is not None:
                st.importing += 1
                return self._local_trace_import
        return None

    def _local_trace_import(self, frame, event, arg):
        if event == "return":
            st = self._me()
            if st is not None and st.importing > 0:
                st.importing -= 1
        return self._local_trace_import

    def _local_trace(self, frame, event, arg):
        if event == "line":
            self._preempt_point(frame)
        return self._local_trace

    def _local_trace_window(self, frame, event, arg):
        if event == "line":
            self._preempt_point(frame)
        elif event == "return":
            st = self._me()
            if st is not None and st.windows and st.windows[-1] == frame.f_code.co_name:
                st.windows.pop()
        return self._local_trace_window

    def _me(self):
        return getattr(threading.current_thread(), "_sim", None)

    # ---- the pre-emption point -------------------------------------------------------------------
    def _preempt_point(self, frame):
        st = self._me()
        if st is None or st is not self.current or self.error is not None:
            return
        self.step += 1
        st.steps += 1
        if self.frozen:
            return
        if self.step > self.step_cap:
            self.frozen = True
            self.bump("step_cap_reached")
            return
        if _imp.lock_held() or st.importing:
            return
        others = self.runnable_others(st)
        if not others:
            return
        if self.policy["kind"] == "targeted":
            self._region_entry(st, frame)
        target = self._decide(st, others, frame)
        if target is None:
            return
        site = f"{frame.f_code.co_filename[len(kernel.REPO) + 1:] if frame.f_code.co_filename.startswith(kernel.REPO) else 'sim/world.py'}:{frame.f_code.co_name}:{frame.f_lineno}"
        self._switch(st, target, site)

    def _region_entry(self, st, frame):
        """Targeted policy: when the running thread's frame enters a `with` / `try-finally` region of pandera, plan (with
        probability 1/2) exactly one pre-emption a few steps later - while the region is presumably still open - after which
        the other thread is left alone for a while so that it can reach whatever the region protects."""
        ranges = RESTORE_REGIONS.get(frame.f_code.co_filename)
        cur = None
        if ranges:
            ln = frame.f_lineno
            for a, b in ranges:
                if a <= ln <= b:
                    cur = (frame.f_code.co_filename, a, b)     # innermost = last match (sorted by start)
        if cur is not None and cur != st.region:
            self.bump("probe.restore_region_entered")
            if st.pending is None and self.rng.random() < 0.5:
                st.pending = (self.step + self.rng.randrange(1, 30), self.rng.choice([40, 300, 2500]))
        st.region = cur

    def _decide(self, st, others, frame):
        kind = self.policy["kind"]
        if kind == "targeted":
            if st.pending is not None and self.step >= st.pending[0]:
                hold = st.pending[1]
                st.pending = None
                self.hold_until = self.step + hold
                self.bump("probe.preempted_inside_restore_region")
                return others[self.rng.randrange(len(others))]
            if self.step < self.hold_until:
                return None
        if kind == "replay":
            to = self._replay.get(self.step)
            if to is None:
                return None
            if to == st.tid:
                return None
            for t in others:
                if t.tid == to:
                    return t
            raise_err = HarnessError(f"replay: step {self.step} wants thread {to} which is not runnable")
            self.error = raise_err
            return None
        if kind == "uniform":
            if self.rng.random() < self.policy["p"]:
                return others[self.rng.randrange(len(others))]
            return None
        if kind == "targeted":
            p = self.policy["p"]
            if frame.f_code.co_name in BOOST or any(w in BOOST for w in st.windows):
                p = min(0.3, p * self.policy["boost"])
            if self.rng.random() < p:
                return others[self.rng.randrange(len(others))]
            return None
        if kind == "pct":
            if self.step in self.change_points:
                self.prio[st.tid] = min(self.prio) - 1
            best = max([st] + others, key=lambda t: self.prio[t.tid])
            return best if best is not st else None
        raise HarnessError(f"unknown policy {kind}")

    def _switch(self, st, target, site):
        for t in self.threads:
            if t is not st and not t.finished and t.windows:
                self.bump("probe.switch_while_other_inside." + t.windows[-1])
        if st.windows:
            self.bump("probe.preempted_inside." + st.windows[-1])
        self.switches.append((self.step, st.tid, target.tid, site))
        self.bump("context_switches")
        self.current = target
        st.go.clear()
        target.go.set()
        if not st.go.wait(PARK_TIMEOUT):
            self.error = HarnessError(f"thread {st.tid} parked for more than {PARK_TIMEOUT}s (scheduler stuck)")
            self.all_done.set()

    # ---- thread body -----------------------------------------------------------------------------
    def _body(self, st):
        threading.current_thread()._sim = st
        if not st.go.wait(PARK_TIMEOUT):
            self.error = HarnessError("thread never started")
            self.all_done.set()
            return
        sys.settrace(self._global_trace)
        try:
            st.result = st.fn()
        finally:
            sys.settrace(None)
            st.finished = True
            st.windows = []
            others = self.runnable_others(st)
            if others:
                nxt = self._pick_next_after_finish(st, others)
                self.switches.append((self.step, st.tid, nxt.tid, "thread-finished"))
                self.current = nxt
                nxt.go.set()
            else:
                self.all_done.set()

    def _pick_next_after_finish(self, st, others):
        kind = self.policy["kind"]
        if kind == "replay":
            want = self.policy.get("finish_order", {}).get(str(st.tid))
            for t in others:
                if t.tid == want:
                    return t
            return others[0]
        if kind == "pct":
            return max(others, key=lambda t: self.prio[t.tid])
        return others[self.rng.randrange(len(others))]

    # ---- entry point -----------------------------------------------------------------------------
    def run(self, fns, first=None):
        self.threads = [SimThread(i, fn) for i, fn in enumerate(fns)]
        for st in self.threads:
            st.thread = threading.Thread(target=self._body, args=(st,), daemon=True, name=f"sim-{st.tid}")
            st.thread.start()
        if first is None:
            if self.policy["kind"] == "pct":
                first = max(range(len(fns)), key=lambda i: self.prio[i])
            elif self.policy["kind"] == "replay":
                first = self.policy["first"]
            else:
                first = self.rng.randrange(len(fns))
        self.first = first
        self.current = self.threads[first]
        self.current.go.set()
        if not self.all_done.wait(PARK_TIMEOUT * 3):
            self.error = self.error or HarnessError("simulated threads did not finish (watchdog)")
        for st in self.threads:
            st.thread.join(timeout=5)
        if self.error is not None:
            raise self.error
        if self.policy["kind"] == "replay":
            unused = [s for s in self._replay if s > self.step]
            if unused:
                raise HarnessError(f"replay: recorded switch at step {min(unused)} was never reached (run has {self.step} steps)")
        return [st.result for st in self.threads]

    def schedule(self):
        """The replay artefact: first thread, the (step -> thread) switch decisions, and who ran after each finish."""
        sched = [[s, to] for (s, frm, to, site) in self.switches if site != "thread-finished"]
        finish = {str(frm): to for (s, frm, to, site) in self.switches if site == "thread-finished"}
        return {"kind": "replay", "first": self.first, "schedule": sched, "finish_order": finish}


def make_policy(rng, est_steps, nthreads):
    """Swarm: one policy per run."""
    r = rng.random()
    if r < 0.3:
        return {"kind": "uniform", "p": rng.choice([0.002, 0.01, 0.05])}
    if r < 0.55:
        d = rng.choice([1, 2, 3])
        prio = list(range(nthreads))
        rng.shuffle(prio)
        cps = sorted(rng.randrange(1, max(2, est_steps)) for _ in range(d))
        return {"kind": "pct", "prio": prio, "change_points": cps}
    return {"kind": "targeted", "p": rng.choice([0.002, 0.006]), "boost": 25.0}
