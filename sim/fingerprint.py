"""Structural fingerprint of the *observable* surface of a schema object graph, and of the process configuration.

Addresses never enter a fingerprint; private memo attributes pandera might add later are not walked (a cache is
not hidden state).  The fingerprint is a nested JSON-able structure; `diff_paths` names where two differ.
"""
from __future__ import annotations

import dataclasses
import enum
import functools
import re

import pandas as pd

from pandera.api.base.checks import BaseCheck
from pandera.api.base.schema import BaseSchema
from pandera.api.function_dispatch import Dispatcher
from pandera.api.parsers import Parser
from pandera.dtypes import DataType

_ADDR = re.compile(r" at 0x[0-9a-fA-F]+")

SCHEMA_ATTRS = [
    "name", "title", "description", "metadata", "_dtype", "dtype", "_coerce", "coerce", "_unique", "unique", "checks", "parsers",
    "columns", "index", "indexes", "strict", "ordered", "report_duplicates", "unique_column_names",
    "add_missing_columns", "drop_invalid_rows", "nullable", "required", "regex", "default",
]
CHECK_ATTRS = ["name", "error", "statistics", "statistics_args", "_check_kwargs", "element_wise", "ignore_na",
               "raise_warning", "n_failure_cases", "title", "description", "groupby", "groups", "_check_fn", "strategy"]
PARSER_ATTRS = ["name", "title", "description", "element_wise", "ignore_na", "_parser_fn", "_parser_kwargs"]


def _fn_id(fn):
    if isinstance(fn, Dispatcher):
        # identified by name, not identity: model fields hold a copy of the registry dispatcher that Check.__call__
        # re-binds to the registry's own (equivalent) object, and the registry is filled lazily per backend
        return ["builtin-dispatcher", str(fn)]
    if isinstance(fn, functools.partial):
        return ["partial", _fn_id(fn.func), fp(fn.args), fp(fn.keywords)]
    vid = getattr(fn, "_verif_id", None)
    return ["fn", getattr(fn, "__module__", None), getattr(fn, "__qualname__", type(fn).__name__), list(vid) if vid else None]


def fp(o, depth=0):
    if depth > 12:
        return "<deep>"
    if o is None or isinstance(o, (bool, int, str)):
        return o
    if isinstance(o, float):
        return "NaN" if o != o else o
    if isinstance(o, enum.Enum):
        return ["enum", type(o).__name__, o.name]
    if isinstance(o, BaseSchema):
        d = vars(o)
        out = {"__class__": f"{type(o).__module__}.{type(o).__qualname__}"}
        for a in SCHEMA_ATTRS:
            if a in d:
                out[a] = fp(d[a], depth + 1)
        return out
    if isinstance(o, BaseCheck):
        d = vars(o)
        out = {"__class__": type(o).__qualname__}
        for a in CHECK_ATTRS:
            if a in d:
                out[a] = _fn_id(d[a]) if a == "_check_fn" else fp(d[a], depth + 1)
        return out
    if isinstance(o, Parser):
        d = vars(o)
        out = {"__class__": "Parser"}
        for a in PARSER_ATTRS:
            if a in d:
                out[a] = _fn_id(d[a]) if a == "_parser_fn" else fp(d[a], depth + 1)
        return out
    if isinstance(o, DataType):
        out = {"__class__": f"{type(o).__module__}.{type(o).__qualname__}", "repr": _ADDR.sub("", repr(o)), "str": str(o)}
        if dataclasses.is_dataclass(o):
            for f in dataclasses.fields(o):
                out["f." + f.name] = fp(getattr(o, f.name, None), depth + 1)
        else:
            out["type"] = _ADDR.sub("", repr(getattr(o, "type", None)))
        return out
    if isinstance(o, dict):
        return {"__dict__": [[fp(k, depth + 1), fp(v, depth + 1)] for k, v in o.items()]}   # order is observable (columns)
    if isinstance(o, (list, tuple)):
        return [type(o).__name__] + [fp(x, depth + 1) for x in o]
    if isinstance(o, (set, frozenset)):
        return ["set"] + sorted((fp(x, depth + 1) for x in o), key=str)
    if callable(o) and not isinstance(o, type):
        return _fn_id(o)
    if isinstance(o, type):
        return ["type", f"{o.__module__}.{o.__qualname__}"]
    if isinstance(o, (pd.Timestamp, pd.Timedelta)):
        return ["pd", repr(o)]
    if dataclasses.is_dataclass(o):
        return {"__dataclass__": type(o).__qualname__, **{f.name: fp(getattr(o, f.name), depth + 1) for f in dataclasses.fields(o)}}
    return ["obj", type(o).__qualname__, _ADDR.sub("", repr(o))[:300]]


def diff_paths(a, b, path="", out=None, limit=6):
    """Paths at which two fingerprints differ (most specific first found, bounded)."""
    if out is None:
        out = []
    if len(out) >= limit:
        return out
    if type(a) is not type(b):
        out.append(path or "<root>")
        return out
    if isinstance(a, dict):
        if "__dict__" in a and "__dict__" in b and len(a) == 1:
            ka = [str(k) for k, _ in a["__dict__"]]
            kb = [str(k) for k, _ in b["__dict__"]]
            if ka != kb:
                out.append(path + ".<keys>")
                return out
            for (k, va), (_, vb) in zip(a["__dict__"], b["__dict__"]):
                diff_paths(va, vb, f"{path}[{k}]", out, limit)
            return out
        for k in sorted(set(a) | set(b)):
            if k not in a or k not in b:
                out.append(f"{path}.{k}")
            else:
                diff_paths(a[k], b[k], f"{path}.{k}", out, limit)
        return out
    if isinstance(a, list):
        if len(a) != len(b):
            out.append(path + ".<len>")
            return out
        for i, (x, y) in enumerate(zip(a, b)):
            diff_paths(x, y, f"{path}[{i}]", out, limit)
        return out
    if a != b:
        out.append(path or "<root>")
    return out


_IDX = re.compile(r"\[[^\]]*\]")


def generalise(path):
    """Fingerprint path with concrete keys/indices removed: `.columns[c1].checks[2].statistics` -> `.columns[].checks[].statistics`."""
    return _IDX.sub("[]", path)


def config_fp():
    """Process configuration: the context config as it is (no default substituted) and the global config."""
    from pandera import config

    ctx = config.get_config_context(validation_depth_default=None)
    glb = config.get_config_global()
    return {"context": _cfg(ctx), "global": _cfg(glb)}


def _cfg(c):
    return {"validation_enabled": c.validation_enabled, "validation_depth": getattr(c.validation_depth, "name", c.validation_depth),
            "cache_dataframe": c.cache_dataframe, "keep_cached_dataframe": c.keep_cached_dataframe}


def _tokens(path):
    out, cur, depth = [], "", 0
    for ch in path:
        if ch == "[":
            depth += 1
        elif ch == "]":
            depth -= 1
        if ch == "." and depth == 0:
            if cur:
                out.append(cur)
            cur = ""
        else:
            cur += ch
    if cur:
        out.append(cur)
    return out


_OWNER = {"columns": "Column", "index": "Index", "indexes": "Index", "checks": "Check", "parsers": "Parser"}


def classify_path(path):
    """`.columns[c0].checks[1]._check_fn.<len>` -> `Check._check_fn`; `.columns[tz]._dtype.f.tz` -> `Column.dtype`;
    `.index._coerce` -> `Index.coerce`.  Names the *kind of object and attribute* that differs, not the instance."""
    owner = "Schema"
    for tok in _tokens(path):
        name = tok.split("[", 1)[0]
        if name in _OWNER:
            owner = _OWNER[name]
            continue
        if name in ("_dtype", "dtype"):
            return f"{owner}.dtype"
        if name in ("<len>", "<keys>"):
            return f"{owner}s"          # the collection itself (number / keys of columns, checks, ...) differs
        return f"{owner}.{name.lstrip('_') if name in ('_coerce', '_unique') else name}"
    return owner


def classify(paths):
    return sorted({classify_path(p) for p in paths})
