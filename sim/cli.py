"""CLI: ./check <PROP|selftest> [--tier quick|thorough] [--seed N] [--replay FILE] [--runs N] [--workers N]

Run as a script (never `python -m`), so that no module is loaded twice.
"""
import argparse
import os
import sys
import traceback

VERIF_DIR = os.path.dirname(os.path.dirname(os.path.abspath(__file__)))
if VERIF_DIR not in sys.path:
    sys.path.insert(0, VERIF_DIR)

from sim import kernel  # noqa: E402

kernel.use_repo()

import warnings  # noqa: E402

warnings.filterwarnings("ignore")


def main(argv):
    # the cold child of a C07 run inherits whatever hash seed its parent runs under (the self-test varies it on purpose)
    if os.environ.get("PYTHONHASHSEED") != "0" and not (argv and argv[0] == "_c07child" and os.environ.get("PYTHONHASHSEED", "").isdigit()):
        print("harness error: run through ./check (PYTHONHASHSEED must be 0)", file=sys.stderr)
        return kernel.EXIT_HARNESS
    from sim import driver

    if argv and argv[0] == "_worker":
        ap = argparse.ArgumentParser()
        ap.add_argument("prop")
        ap.add_argument("--seed", type=int, required=True)
        ap.add_argument("--tier", required=True)
        ap.add_argument("--first", type=int, required=True)
        ap.add_argument("--stride", type=int, required=True)
        ap.add_argument("--count", type=int, required=True)
        ap.add_argument("--out", required=True)
        a = ap.parse_args(argv[1:])
        return driver.worker_main(a.prop, a.seed, a.tier, a.first, a.stride, a.count, a.out)

    if argv and argv[0] == "_c07child":
        from checks import c07

        return c07.child_main()

    ap = argparse.ArgumentParser()
    ap.add_argument("prop")
    ap.add_argument("--tier", default=os.environ.get("VERIF_TIER", "quick"), choices=["quick", "thorough"])
    ap.add_argument("--seed", type=int, default=kernel.seed_from_env())
    ap.add_argument("--replay")
    ap.add_argument("--expect-class")
    ap.add_argument("--runs", type=int)
    ap.add_argument("--workers", type=int)
    ap.add_argument("--one", type=int, help="run a single run index in-process and print its record")
    a, rest = ap.parse_known_args(argv)
    try:
        if a.prop == "selftest":
            from checks import selftest

            return selftest.main(a.seed, rest)
        prop = a.prop.upper()
        if a.replay:
            return driver.main_replay(prop, a.replay, a.expect_class)
        if a.one is not None:
            rec = driver.load(prop).run_one(a.seed, a.tier, a.one)
            print(kernel.jdump(rec))
            return 0
        return driver.main_check(prop, a.tier, a.seed, a.runs, a.workers)
    except kernel.HarnessError as e:
        print(f"HARNESS-ERROR: {e}", file=sys.stderr)
        return kernel.EXIT_HARNESS
    except Exception:  # noqa: BLE001 - harness exceptions are classified apart from violations
        traceback.print_exc()
        print("HARNESS-ERROR: unexpected exception in the checking machinery", file=sys.stderr)
        return kernel.EXIT_HARNESS


if __name__ == "__main__":
    sys.exit(main(sys.argv[1:]))
